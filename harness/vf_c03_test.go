package sftp_test

// C03 — each client call gets the reply to its own request.

import (
	"bytes"
	"context"
	"errors"
	"fmt"
	"io"
	"os"
	"sort"
	"strings"
	"testing"

	sftp "github.com/pkg/sftp"
	"pgregory.net/rapid"
)

type vfC03Op struct {
	Kind string // Stat | Lstat | ReadLink | RealPath | ReadDir | StatVFS | ReadAt | WriteAt | FStat
	I    int    // which file / link / dir
	Off  int    `json:",omitempty"`
	Len  int    `json:",omitempty"`
}

type vfCaseC03 struct {
	Opts   vfOpts
	Window int
	Order  []int
	Gs     [][]vfC03Op
	// both directions of the transport hold at most this many unread bytes before a Write has to wait
	// (0 = unbounded): a sender can be kept waiting in Write while replies keep arriving (seed C03-g)
	PipeCap int `json:",omitempty"`
}

const (
	vfC03Files  = 6
	vfC03Dirs   = 4
	vfC03Region = 4096
)

func vfC03FileLen(i, mp int) int { return 3*mp + 11 + 17*i }

func vfGenC03(t *rapid.T) vfCaseC03 {
	c := vfCaseC03{Opts: vfGenSmallOpts(t)}
	c.Window = rapid.SampledFrom([]int{1, 2, 3, 4, 8, 16}).Draw(t, "window")
	c.Order = rapid.SliceOfN(rapid.IntRange(0, 15), 1, 24).Draw(t, "order")
	c.PipeCap = rapid.SampledFrom([]int{0, 0, 1, 16, 200, 4096}).Draw(t, "pipecap")
	ng := rapid.IntRange(1, 6).Draw(t, "goroutines")
	mp := c.Opts.MaxPacket
	for g := 0; g < ng; g++ {
		n := rapid.IntRange(1, 8).Draw(t, "nops")
		var prog []vfC03Op
		for k := 0; k < n; k++ {
			op := vfC03Op{Kind: rapid.SampledFrom([]string{"Stat", "Stat", "Lstat", "ReadLink", "RealPath", "ReadDir", "StatVFS", "ReadAt", "ReadAt", "ReadAt", "WriteAt", "WriteAt", "FStat", "ReadDirCancel"}).Draw(t, "kind")}
			op.I = rapid.IntRange(0, vfC03Files-1).Draw(t, "i")
			switch op.Kind {
			case "ReadDir":
				op.I %= vfC03Dirs
			case "ReadDirCancel":
				op.I %= vfC03Dirs
				op.Len = rapid.IntRange(0, 1).Draw(t, "cancelwhen") // 0: before the call, 1: concurrently with it
			case "ReadAt":
				fl := vfC03FileLen(op.I, mp)
				op.Off = rapid.IntRange(0, fl-1).Draw(t, "off")
				op.Len = rapid.SampledFrom([]int{1, 5, mp - 1, mp, mp + 1, 2*mp + 3, 3 * mp}).Draw(t, "len")
				if op.Len < 1 {
					op.Len = 1
				}
				if op.Off+op.Len > fl {
					op.Len = fl - op.Off // stay inside the file: the result is a function of the arguments alone
				}
			case "WriteAt":
				op.Off = rapid.IntRange(0, vfC03Region-1).Draw(t, "off")
				op.Len = rapid.SampledFrom([]int{1, 7, mp, mp + 1, 2*mp + 1}).Draw(t, "len")
				if op.Off+op.Len > vfC03Region {
					op.Len = vfC03Region - op.Off
				}
			}
			prog = append(prog, op)
		}
		c.Gs = append(c.Gs, prog)
	}
	return c
}

func vfRunC03(ctx *vfCtx, c vfCaseC03) {
	baseline := vfPkgGoroutineIDs()
	mp := c.Opts.MaxPacket
	dupID := ""
	s, err := vfStartSession(c.Opts, func(p *vfPeer, l *vfLink) {
		for i := 0; i < vfC03Files; i++ {
			n := p.addFile(fmt.Sprintf("/f%d", i), vfPRFBytes(uint32(100+i), 0, vfC03FileLen(i, mp)))
			n.Mtime = uint32(1000 + i)
			p.addSymlink(fmt.Sprintf("/l%d", i), fmt.Sprintf("/f%d", i))
		}
		for j := 0; j < vfC03Dirs; j++ {
			p.addDir(fmt.Sprintf("/d%d", j))
			for k := 0; k <= j; k++ {
				p.addFile(fmt.Sprintf("/d%d/e%d_%d", j, j, k), make([]byte, j*10+k))
			}
		}
		p.addFile("/scratch", nil)
		p.window = c.Window
		p.order = c.Order
		l.C2S.capacity, l.S2C.capacity = c.PipeCap, c.PipeCap
		outstanding := map[uint32]bool{}
		p.onRequest = func(idx int, req *vfPkt) {
			if req.Type == vfFxpInit {
				return
			}
			// ids of requests in flight must be pairwise distinct: the peer has
			// received it and not yet released its reply
			held := map[uint32]bool{}
			for _, h := range p.held {
				if h.idx < len(p.reqs) && p.reqs[h.idx].Pkt != nil {
					held[p.reqs[h.idx].Pkt.ID] = true
				}
			}
			if held[req.ID] && dupID == "" {
				dupID = fmt.Sprintf("request id %d (type %s) arrived while another request with the same id was still unanswered", req.ID, vfTypeName(req.Type))
			}
			_ = outstanding
		}
	})
	if err != nil {
		ctx.Failf("harness/handshake", "%v", err)
	}
	// shared handles, opened before the concurrent phase
	files := make([]*sftp.File, vfC03Files)
	for i := range files {
		f, err := s.c.Open(fmt.Sprintf("/f%d", i))
		if err != nil {
			ctx.Failf("harness/open", "open /f%d: %v", i, err)
		}
		files[i] = f
	}
	scratch, err := s.c.OpenFile("/scratch", os.O_RDWR)
	if err != nil {
		ctx.Failf("harness/open", "open /scratch: %v", err)
	}

	type outcome struct {
		g, k int
		op   vfC03Op
		got  string
		want string
		err  error
	}
	results := make([][]outcome, len(c.Gs))
	var dones []<-chan struct{}
	var calls []*vfOpResult
	for g := range c.Gs {
		g := g
		d, r := vfCall(func() (string, error) {
			for k, op := range c.Gs[g] {
				o := outcome{g: g, k: k, op: op}
				switch op.Kind {
				case "Stat", "Lstat":
					var fi os.FileInfo
					var err error
					if op.Kind == "Stat" {
						fi, err = s.c.Stat(fmt.Sprintf("/f%d", op.I))
						o.want = fmt.Sprintf("f%d %d %d -rw-r--r--", op.I, vfC03FileLen(op.I, mp), 1000+op.I)
					} else {
						fi, err = s.c.Lstat(fmt.Sprintf("/l%d", op.I))
						o.want = fmt.Sprintf("l%d %d %d Lrwxrwxrwx", op.I, len(fmt.Sprintf("/f%d", op.I)), 1300000000)
					}
					o.err = err
					if err == nil {
						o.got = fmt.Sprintf("%s %d %d %v", fi.Name(), fi.Size(), fi.ModTime().Unix(), fi.Mode())
					}
				case "FStat":
					fi, err := files[op.I].Stat()
					o.err = err
					o.want = fmt.Sprintf("f%d %d %d", op.I, vfC03FileLen(op.I, mp), 1000+op.I)
					if err == nil {
						o.got = fmt.Sprintf("%s %d %d", fi.Name(), fi.Size(), fi.ModTime().Unix())
					}
				case "ReadLink":
					o.got, o.err = s.c.ReadLink(fmt.Sprintf("/l%d", op.I))
					o.want = fmt.Sprintf("/f%d", op.I)
				case "RealPath":
					o.got, o.err = s.c.RealPath(fmt.Sprintf("x/../d%d/./y%d", op.I, g))
					o.want = fmt.Sprintf("/d%d/y%d", op.I, g)
				case "ReadDir":
					fis, err := s.c.ReadDir(fmt.Sprintf("/d%d", op.I))
					o.err = err
					var names, want []string
					for _, fi := range fis {
						names = append(names, fmt.Sprintf("%s:%d", fi.Name(), fi.Size()))
					}
					for k := 0; k <= op.I; k++ {
						want = append(want, fmt.Sprintf("e%d_%d:%d", op.I, k, op.I*10+k))
					}
					sort.Strings(names)
					sort.Strings(want)
					o.got, o.want = strings.Join(names, ","), strings.Join(want, ",")
				case "ReadDirCancel":
					// A caller that gives up (seed C03-c): its request stays outstanding, the server answers it
					// whenever it likes, and nobody else may notice. The call itself may end either way.
					cctx, cancel := context.WithCancel(context.Background())
					if op.Len == 0 {
						cancel()
					} else {
						go cancel()
					}
					fis, err := s.c.ReadDirContext(cctx, fmt.Sprintf("/d%d", op.I))
					cancel()
					var names, want []string
					for _, fi := range fis {
						names = append(names, fmt.Sprintf("%s:%d", fi.Name(), fi.Size()))
					}
					for k := 0; k <= op.I; k++ {
						want = append(want, fmt.Sprintf("e%d_%d:%d", op.I, k, op.I*10+k))
					}
					sort.Strings(names)
					sort.Strings(want)
					o.got, o.want = strings.Join(names, ","), strings.Join(want, ",")
					if errors.Is(err, context.Canceled) {
						o.got = o.want
					} else {
						o.err = err
					}
				case "StatVFS":
					v, err := s.c.StatVFS("/")
					o.err = err
					o.want = "4096 1000 255"
					if err == nil && v != nil {
						o.got = fmt.Sprintf("%d %d %d", v.Bsize, v.Blocks, v.Namemax)
					}
				case "ReadAt":
					b := make([]byte, op.Len)
					n, err := files[op.I].ReadAt(b, int64(op.Off))
					o.err = err
					if err == io.EOF && n == op.Len {
						o.err = nil
					}
					o.want = vfSum(vfPRFBytes(uint32(100+op.I), op.Off, op.Len))
					o.got = vfSum(b[:n])
				case "WriteAt":
					data := vfPRFBytes(uint32(500+g), op.Off, op.Len)
					n, err := scratch.WriteAt(data, int64(g*vfC03Region+op.Off))
					o.err = err
					o.got, o.want = fmt.Sprint(n), fmt.Sprint(op.Len)
				}
				results[g] = append(results[g], o)
			}
			return "", nil
		})
		dones = append(dones, d)
		calls = append(calls, r)
	}
	for g, d := range dones {
		if !vfAwait(ctx, d, fmt.Sprintf("goroutine %d", g)) {
			ctx.Failf("C03/hang", "goroutine %d never finishes (window %d)\n%s", g, c.Window, vfDumpRelevant())
		}
		if calls[g].Panic != nil {
			ctx.Failf("panic/"+vfPanicSite([]byte(calls[g].Stack)), "goroutine %d panicked: %v\n%s", g, calls[g].Panic, vfTrimStack([]byte(calls[g].Stack)))
		}
	}
	for g := range results {
		for _, o := range results[g] {
			if o.err != nil {
				ctx.Failf("C03/error/"+o.op.Kind, "goroutine %d op %d %+v failed: %v", o.g, o.k, o.op, o.err)
			}
			if o.got != o.want {
				ctx.Failf("C03/wrong-result/"+o.op.Kind, "goroutine %d op %d %+v returned %q, its own request's answer is %q", o.g, o.k, o.op, o.got, o.want)
			}
		}
	}
	// what was written must be what the peer stored (last writer per byte, per goroutine region: program order)
	s.peer.mu.Lock()
	stored := append([]byte{}, s.peer.fs["/scratch"].Data...)
	s.peer.mu.Unlock()
	for g, prog := range c.Gs {
		model := make([]byte, vfC03Region)
		for _, op := range prog {
			if op.Kind == "WriteAt" {
				copy(model[op.Off:], vfPRFBytes(uint32(500+g), op.Off, op.Len))
			}
		}
		got := make([]byte, vfC03Region)
		if lo := g * vfC03Region; lo < len(stored) {
			copy(got, stored[lo:])
		}
		if !bytes.Equal(got, model) {
			ctx.Failf("C03/stored-bytes", "region of goroutine %d differs from what it wrote at offset %d", g, vfDiffAt(got, model))
		}
	}
	if dupID != "" {
		ctx.Failf("C03/duplicate-id", "%s", dupID)
	}
	// the client->server stream must be a sequence of well-formed request frames
	bodies, tail, bad := vfSplitFrames(s.link.C2S.Tap())
	if bad || len(tail) != 0 {
		ctx.Failf("C03/framing", "client->server stream does not split into frames (bad=%v, %d trailing bytes)", bad, len(tail))
	}
	for i, b := range bodies {
		p, rest, err := vfDecodeBody(b)
		if err != nil || len(rest) != 0 || !(p.Type == vfFxpInit || vfIsRequestType(p.Type)) {
			ctx.Failf("C03/framing", "frame %d on the client->server stream is not a well-formed request: %v (%d extra bytes) %s", i, err, len(rest), vfHex(b))
		}
	}
	for _, f := range files {
		f.Close()
	}
	scratch.Close()
	ctx.Class(fmt.Sprintf("goroutines=%d", len(c.Gs)))
	ctx.Class(fmt.Sprintf("window=%d", c.Window))
	// the peer's counters belong to its goroutine: read them once it has finished (an abandoned
	// ReadDirContext may still be answered while the calls above have long returned)
	vfEndSession(ctx, "C03", s, baseline)
	if s.peer.maxOut >= 2 {
		ctx.Class("held>=2")
	}
	if s.peer.outOfFIFO > 0 {
		ctx.Class("out-of-fifo")
	}
	if len(c.Gs) >= 2 && s.peer.outOfFIFO > 0 && s.peer.maxOut >= 2 {
		ctx.NonTrivial()
	}
}

func TestVerifC03(t *testing.T) {
	vfDriveSub(t, "", vfProp[vfCaseC03]{ID: "C03", Gen: vfGenC03, Run: vfRunC03})
}
