package sftp_test

// vf_srv_test.go — run one of the package's servers over an in-memory link and
// talk to it with raw frames built by the reference codec.

import (
	"fmt"
	"io"
	"os"

	sftp "github.com/pkg/sftp"
)

type vfSrvCfg struct {
	Kind           string // "os" | "rs"
	Alloc          bool
	ReadOnly       bool   `json:",omitempty"`
	CloseKeepsRead bool   `json:",omitempty"` // transport: Close only closes the write side, queued bytes stay readable
	Chunk          int    `json:",omitempty"` // bytes per Read on the server's side (0 = all)
	MaxTx          uint32 `json:",omitempty"`
	StartDir       string `json:",omitempty"`
	// Options are independent of each other and of the order they are given in (seed C09-d): Extra adds the
	// ones that do nothing observable here (WindowsRootEnumeratesDrives, WithDebug to a discarding writer),
	// OptPerm != 0 shuffles the option list.
	Extra   bool   `json:",omitempty"`
	OptPerm uint32 `json:",omitempty"`
	HOpts   vfHOpts
	// share, when set, makes every server started with it use the very same option values (an application
	// that builds its option list once and serves every session with it - seed C18-d)
	share *vfSharedOpts
}

type vfSharedOpts struct {
	os []sftp.ServerOption
	rs []sftp.RequestServerOption
}

// vfPermute shuffles n elements with a small deterministic generator (Fisher-Yates over an LCG).
func vfPermute(n int, seed uint32, swap func(i, j int)) {
	if seed == 0 {
		return
	}
	x := uint64(seed)*2862933555777941757 + 3037000493
	for i := n - 1; i > 0; i-- {
		x = x*6364136223846793005 + 1442695040888963407
		swap(i, int((x>>33)%uint64(i+1)))
	}
}

type vfSrv struct {
	cfg      vfSrvCfg
	link     *vfLink
	root     string
	h        *vfH
	done     chan struct{}
	serveErr error
	osrv     *sftp.Server
	rsrv     *sftp.RequestServer
	sent     int // request frames sent (INIT included)
}

// vfStartSrv starts a server of the configured kind. For the os-backed server
// root is its working directory; for the request server h is the backend.
func vfStartSrv(cfg vfSrvCfg, root string, h *vfH) (*vfSrv, error) {
	l := newVfLink()
	l.Server.closeEndsRead = !cfg.CloseKeepsRead
	l.C2S.chunk = cfg.Chunk
	s := &vfSrv{cfg: cfg, link: l, root: root, h: h, done: make(chan struct{})}
	switch cfg.Kind {
	case "os":
		var opts []sftp.ServerOption
		if root != "" {
			opts = append(opts, sftp.WithServerWorkingDirectory(root))
		}
		if cfg.Alloc {
			opts = append(opts, sftp.WithAllocator())
		}
		if cfg.ReadOnly {
			opts = append(opts, sftp.ReadOnly())
		}
		if cfg.MaxTx != 0 {
			opts = append(opts, sftp.WithMaxTxPacket(cfg.MaxTx))
		}
		if cfg.Extra {
			opts = append(opts, sftp.WindowsRootEnumeratesDrives(), sftp.WithDebug(io.Discard))
		}
		vfPermute(len(opts), cfg.OptPerm, func(i, j int) { opts[i], opts[j] = opts[j], opts[i] })
		if cfg.share != nil {
			if cfg.share.os == nil {
				cfg.share.os = opts
			}
			opts = cfg.share.os
		}
		srv, err := sftp.NewServer(l.Server, opts...)
		if err != nil {
			return nil, err
		}
		s.osrv = srv
		go func() {
			defer close(s.done)
			s.serveErr = srv.Serve()
		}()
	case "rs":
		var opts []sftp.RequestServerOption
		if cfg.Alloc {
			opts = append(opts, sftp.WithRSAllocator())
		}
		if cfg.StartDir != "" {
			opts = append(opts, sftp.WithStartDirectory(cfg.StartDir))
		}
		if cfg.MaxTx != 0 {
			opts = append(opts, sftp.WithRSMaxTxPacket(cfg.MaxTx))
		}
		vfPermute(len(opts), cfg.OptPerm, func(i, j int) { opts[i], opts[j] = opts[j], opts[i] })
		if cfg.share != nil {
			if cfg.share.rs == nil {
				cfg.share.rs = opts
			}
			opts = cfg.share.rs
		}
		srv := sftp.NewRequestServer(l.Server, h.Handlers(cfg.HOpts), opts...)
		s.rsrv = srv
		go func() {
			defer close(s.done)
			s.serveErr = srv.Serve()
		}()
	default:
		return nil, fmt.Errorf("unknown server kind %q", cfg.Kind)
	}
	return s, nil
}

func (s *vfSrv) SendRaw(b []byte) { s.link.Client.Write(b) }

func (s *vfSrv) Send(pkts ...*vfPkt) {
	var buf []byte
	for _, p := range pkts {
		buf = append(buf, vfEncode(p)...)
	}
	s.sent += len(pkts)
	s.link.Client.Write(buf)
}

// AwaitReplies waits until the server has written n frames in total. false =
// the process went quiescent first (the replies will never come).
func (s *vfSrv) AwaitReplies(ctx *vfCtx, n int) bool {
	if s.link.S2C.Frames() >= n {
		return true
	}
	done := make(chan struct{})
	s.link.S2C.ResetAbort()
	go func() {
		s.link.S2C.WaitFrames(n)
		close(done)
	}()
	ok := vfAwait(ctx, done, fmt.Sprintf("%d replies", n))
	if !ok {
		s.link.S2C.AbortWait()
		<-done
	}
	return ok && s.link.S2C.Frames() >= n
}

// Replies decodes everything the server has written so far.
func (s *vfSrv) Replies() (pkts []*vfPkt, bodies [][]byte, tail []byte, bad bool) {
	bodies, tail, bad = vfSplitFrames(s.link.S2C.Tap())
	for _, b := range bodies {
		p, _, err := vfDecodeBody(b)
		if err != nil {
			p = &vfPkt{Type: b[0], Raw: b}
		}
		pkts = append(pkts, p)
	}
	return
}

// Init performs the handshake and returns the VERSION packet.
func (s *vfSrv) Init(ctx *vfCtx) *vfPkt {
	s.Send(&vfPkt{Type: vfFxpInit, Version: 3})
	if !s.AwaitReplies(ctx, 1) {
		ctx.Failf("C02/no-version", "server never answers INIT\n%s", vfDumpRelevant())
	}
	pk, _, _, _ := s.Replies()
	return pk[0]
}

// Hangup closes the client's write side (clean EOF for the server) and waits
// for Serve to return.
func (s *vfSrv) Hangup(ctx *vfCtx, key string) {
	s.link.C2S.closeWrite()
	if !vfAwait(ctx, s.done, "Serve to return") {
		ctx.Failf(key+"/serve-hangs", "Serve never returns after the peer hung up\n%s", vfDumpRelevant())
	}
}

func vfMkTree(root string) {
	must := func(err error) {
		if err != nil {
			panic(err)
		}
	}
	must(os.MkdirAll(root+"/dir/sub", 0o755))
	must(os.WriteFile(root+"/file", vfPRFBytes(1, 0, 300), 0o644))
	must(os.WriteFile(root+"/big", vfBigFile, 0o644))
	must(os.WriteFile(root+"/dir/a", []byte("a"), 0o644))
	must(os.WriteFile(root+"/dir/b", []byte("bb"), 0o600))
	must(os.WriteFile(root+"/dir/sub/x", []byte("xxxx"), 0o644))
	must(os.Mkdir(root+"/empty", 0o755))
	must(os.Symlink("file", root+"/lfile"))
	must(os.Symlink("dir", root+"/ldir"))
	must(os.Symlink("nothing", root+"/ldangling"))
}
