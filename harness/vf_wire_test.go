package sftp_test

// vf_wire_test.go — an independent SFTP v3 codec, written from
// draft-ietf-secsh-filexfer-02 §3–§7 and OpenSSH's PROTOCOL §4 (extensions),
// NOT from packet.go. It is the layout oracle (C06), the producer of raw
// request streams, and the parser of whatever pkg/sftp puts on the wire.

import (
	"encoding/binary"
	"errors"
	"fmt"
)

const (
	vfFxpInit          = 1
	vfFxpVersion       = 2
	vfFxpOpen          = 3
	vfFxpClose         = 4
	vfFxpRead          = 5
	vfFxpWrite         = 6
	vfFxpLstat         = 7
	vfFxpFstat         = 8
	vfFxpSetstat       = 9
	vfFxpFsetstat      = 10
	vfFxpOpendir       = 11
	vfFxpReaddir       = 12
	vfFxpRemove        = 13
	vfFxpMkdir         = 14
	vfFxpRmdir         = 15
	vfFxpRealpath      = 16
	vfFxpStat          = 17
	vfFxpRename        = 18
	vfFxpReadlink      = 19
	vfFxpSymlink       = 20
	vfFxpStatus        = 101
	vfFxpHandle        = 102
	vfFxpData          = 103
	vfFxpName          = 104
	vfFxpAttrs         = 105
	vfFxpExtended      = 200
	vfFxpExtendedReply = 201

	vfFxOK               = 0
	vfFxEOF              = 1
	vfFxNoSuchFile       = 2
	vfFxPermissionDenied = 3
	vfFxFailure          = 4
	vfFxBadMessage       = 5
	vfFxNoConnection     = 6
	vfFxConnectionLost   = 7
	vfFxOpUnsupported    = 8

	vfAttrSize        = 0x00000001
	vfAttrUIDGID      = 0x00000002
	vfAttrPermissions = 0x00000004
	vfAttrACModTime   = 0x00000008
	vfAttrExtended    = 0x80000000

	vfPfRead   = 0x01
	vfPfWrite  = 0x02
	vfPfAppend = 0x04
	vfPfCreat  = 0x08
	vfPfTrunc  = 0x10
	vfPfExcl   = 0x20

	vfMaxFrame = 256 * 1024
	// A server whose payload limit was raised emits DATA frames longer than the 256 KiB it accepts itself;
	// the observers that split a tapped stream into frames must not stop counting there.
	vfMaxTapFrame = 1 << 24

	vfExtStatVFS     = "statvfs@openssh.com"
	vfExtPosixRename = "posix-rename@openssh.com"
	vfExtHardlink    = "hardlink@openssh.com"
	vfExtFsync       = "fsync@openssh.com"
)

type vfExt struct {
	Name []byte
	Data []byte
}

type vfAttrs struct {
	Flags    uint32
	Size     uint64
	UID, GID uint32
	Perm     uint32
	Atime    uint32
	Mtime    uint32
	Ext      []vfExt
}

type vfName struct {
	Name  []byte
	Long  []byte
	Attrs vfAttrs
}

// vfPkt is one logical packet; which fields are meaningful depends on Type.
type vfPkt struct {
	Type    byte
	ID      uint32   `json:",omitempty"`
	Version uint32   `json:",omitempty"` // INIT, VERSION
	Exts    []vfExt  `json:",omitempty"` // INIT, VERSION
	Path    []byte   `json:",omitempty"` // path / filename / oldpath / first string of SYMLINK
	Path2   []byte   `json:",omitempty"` // newpath / second string of SYMLINK
	Handle  []byte   `json:",omitempty"`
	Pflags  uint32   `json:",omitempty"`
	Attrs   *vfAttrs `json:",omitempty"`
	Offset  uint64   `json:",omitempty"`
	Len     uint32   `json:",omitempty"`
	Data    []byte   `json:",omitempty"`
	Code    uint32   `json:",omitempty"`
	Msg     []byte   `json:",omitempty"`
	Lang    []byte   `json:",omitempty"`
	Names   []vfName `json:",omitempty"`
	ExtName []byte   `json:",omitempty"` // EXTENDED request name
	Raw     []byte   `json:",omitempty"` // EXTENDED (unknown name) body after the name / EXTENDED_REPLY body
	VFS     []uint64 `json:",omitempty"` // statvfs reply: 11 words
}

// ---- encoder ---------------------------------------------------------------

type vfW struct {
	b    []byte
	lens []int // offsets (within b) of every uint32 length / count field
}

func (w *vfW) u8(v byte)    { w.b = append(w.b, v) }
func (w *vfW) u32(v uint32) { w.b = binary.BigEndian.AppendUint32(w.b, v) }
func (w *vfW) u64(v uint64) { w.b = binary.BigEndian.AppendUint64(w.b, v) }
func (w *vfW) str(s []byte) {
	w.lens = append(w.lens, len(w.b))
	w.u32(uint32(len(s)))
	w.b = append(w.b, s...)
}
func (w *vfW) count(n int) {
	w.lens = append(w.lens, len(w.b))
	w.u32(uint32(n))
}
func (w *vfW) attrs(a *vfAttrs) {
	if a == nil {
		w.u32(0)
		return
	}
	w.u32(a.Flags)
	w.attrBody(a)
}
func (w *vfW) attrBody(a *vfAttrs) {
	if a.Flags&vfAttrSize != 0 {
		w.u64(a.Size)
	}
	if a.Flags&vfAttrUIDGID != 0 {
		w.u32(a.UID)
		w.u32(a.GID)
	}
	if a.Flags&vfAttrPermissions != 0 {
		w.u32(a.Perm)
	}
	if a.Flags&vfAttrACModTime != 0 {
		w.u32(a.Atime)
		w.u32(a.Mtime)
	}
	if a.Flags&vfAttrExtended != 0 {
		w.count(len(a.Ext))
		for _, e := range a.Ext {
			w.str(e.Name)
			w.str(e.Data)
		}
	}
}

// vfEncodeBody renders type byte + body (no length prefix).
func vfEncodeBody(p *vfPkt) []byte {
	b, _ := vfEncodeBodyMap(p)
	return b
}

// vfEncodeBodyMap also returns the offsets of all length / count fields.
func vfEncodeBodyMap(p *vfPkt) ([]byte, []int) {
	w := &vfW{}
	vfEncodeInto(w, p)
	return w.b, w.lens
}

func vfEncodeInto(w *vfW, p *vfPkt) {
	w.u8(p.Type)
	switch p.Type {
	case vfFxpInit, vfFxpVersion:
		w.u32(p.Version)
		for _, e := range p.Exts {
			w.str(e.Name)
			w.str(e.Data)
		}
		return
	}
	w.u32(p.ID)
	switch p.Type {
	case vfFxpOpen:
		w.str(p.Path)
		w.u32(p.Pflags)
		w.attrs(p.Attrs)
	case vfFxpClose, vfFxpFstat, vfFxpReaddir:
		w.str(p.Handle)
	case vfFxpRead:
		w.str(p.Handle)
		w.u64(p.Offset)
		w.u32(p.Len)
	case vfFxpWrite:
		w.str(p.Handle)
		w.u64(p.Offset)
		w.str(p.Data)
	case vfFxpLstat, vfFxpStat, vfFxpOpendir, vfFxpRemove, vfFxpRmdir, vfFxpRealpath, vfFxpReadlink:
		w.str(p.Path)
	case vfFxpSetstat:
		w.str(p.Path)
		w.attrs(p.Attrs)
	case vfFxpFsetstat:
		w.str(p.Handle)
		w.attrs(p.Attrs)
	case vfFxpMkdir:
		w.str(p.Path)
		w.attrs(p.Attrs)
	case vfFxpRename, vfFxpSymlink:
		w.str(p.Path)
		w.str(p.Path2)
	case vfFxpStatus:
		w.u32(p.Code)
		w.str(p.Msg)
		w.str(p.Lang)
	case vfFxpHandle:
		w.str(p.Handle)
	case vfFxpData:
		w.str(p.Data)
	case vfFxpName:
		w.count(len(p.Names))
		for i := range p.Names {
			n := &p.Names[i]
			w.str(n.Name)
			w.str(n.Long)
			w.attrs(&n.Attrs)
		}
	case vfFxpAttrs:
		w.attrs(p.Attrs)
	case vfFxpExtended:
		w.str(p.ExtName)
		switch string(p.ExtName) {
		case vfExtStatVFS:
			w.str(p.Path)
		case vfExtPosixRename, vfExtHardlink:
			w.str(p.Path)
			w.str(p.Path2)
		case vfExtFsync:
			w.str(p.Handle)
		default:
			w.b = append(w.b, p.Raw...)
		}
	case vfFxpExtendedReply:
		if p.VFS != nil {
			for _, v := range p.VFS {
				w.u64(v)
			}
		} else {
			w.b = append(w.b, p.Raw...)
		}
	default:
		w.b = append(w.b, p.Raw...)
	}
}

// vfEncode renders the full frame: uint32 length + type + body.
func vfEncode(p *vfPkt) []byte {
	body := vfEncodeBody(p)
	out := make([]byte, 4, 4+len(body))
	binary.BigEndian.PutUint32(out, uint32(len(body)))
	return append(out, body...)
}

func vfFrame(body []byte) []byte {
	out := make([]byte, 4, 4+len(body))
	binary.BigEndian.PutUint32(out, uint32(len(body)))
	return append(out, body...)
}

// ---- decoder ---------------------------------------------------------------

var errVfShort = errors.New("vfwire: short packet")

type vfR struct {
	b   []byte
	err error
}

func (r *vfR) u8() byte {
	if r.err != nil || len(r.b) < 1 {
		r.err = errVfShort
		return 0
	}
	v := r.b[0]
	r.b = r.b[1:]
	return v
}
func (r *vfR) u32() uint32 {
	if r.err != nil || len(r.b) < 4 {
		r.err = errVfShort
		return 0
	}
	v := binary.BigEndian.Uint32(r.b)
	r.b = r.b[4:]
	return v
}
func (r *vfR) u64() uint64 {
	if r.err != nil || len(r.b) < 8 {
		r.err = errVfShort
		return 0
	}
	v := binary.BigEndian.Uint64(r.b)
	r.b = r.b[8:]
	return v
}
func (r *vfR) str() []byte {
	n := r.u32()
	if r.err != nil {
		return nil
	}
	if uint64(n) > uint64(len(r.b)) {
		r.err = errVfShort
		return nil
	}
	v := append([]byte{}, r.b[:n]...)
	r.b = r.b[n:]
	return v
}
func (r *vfR) attrs() *vfAttrs {
	a := &vfAttrs{}
	a.Flags = r.u32()
	r.attrBody(a)
	if r.err != nil {
		return nil
	}
	return a
}
func (r *vfR) attrBody(a *vfAttrs) {
	if a.Flags&vfAttrSize != 0 {
		a.Size = r.u64()
	}
	if a.Flags&vfAttrUIDGID != 0 {
		a.UID = r.u32()
		a.GID = r.u32()
	}
	if a.Flags&vfAttrPermissions != 0 {
		a.Perm = r.u32()
	}
	if a.Flags&vfAttrACModTime != 0 {
		a.Atime = r.u32()
		a.Mtime = r.u32()
	}
	if a.Flags&vfAttrExtended != 0 {
		n := r.u32()
		if r.err != nil {
			return
		}
		if uint64(n) > uint64(len(r.b))/8 {
			r.err = errVfShort
			return
		}
		for i := uint32(0); i < n && r.err == nil; i++ {
			var e vfExt
			e.Name = r.str()
			e.Data = r.str()
			a.Ext = append(a.Ext, e)
		}
	}
}

// vfDecodeBody parses type byte + body strictly: every field the type requires
// must be inside the body. Bytes left over after the last field are tolerated
// (reported through rest).
func vfDecodeBody(body []byte) (p *vfPkt, rest []byte, err error) {
	r := &vfR{b: body}
	p = &vfPkt{}
	p.Type = r.u8()
	if r.err != nil {
		return nil, nil, r.err
	}
	switch p.Type {
	case vfFxpInit, vfFxpVersion:
		p.Version = r.u32()
		for r.err == nil && len(r.b) > 0 {
			var e vfExt
			e.Name = r.str()
			e.Data = r.str()
			if r.err == nil {
				p.Exts = append(p.Exts, e)
			}
		}
		return p, nil, r.err
	}
	p.ID = r.u32()
	switch p.Type {
	case vfFxpOpen:
		p.Path = r.str()
		p.Pflags = r.u32()
		p.Attrs = r.attrs()
	case vfFxpClose, vfFxpFstat, vfFxpReaddir:
		p.Handle = r.str()
	case vfFxpRead:
		p.Handle = r.str()
		p.Offset = r.u64()
		p.Len = r.u32()
	case vfFxpWrite:
		p.Handle = r.str()
		p.Offset = r.u64()
		p.Data = r.str()
	case vfFxpLstat, vfFxpStat, vfFxpOpendir, vfFxpRemove, vfFxpRmdir, vfFxpRealpath, vfFxpReadlink:
		p.Path = r.str()
	case vfFxpSetstat:
		p.Path = r.str()
		p.Attrs = r.attrs()
	case vfFxpFsetstat:
		p.Handle = r.str()
		p.Attrs = r.attrs()
	case vfFxpMkdir:
		p.Path = r.str()
		p.Attrs = r.attrs()
	case vfFxpRename, vfFxpSymlink:
		p.Path = r.str()
		p.Path2 = r.str()
	case vfFxpStatus:
		p.Code = r.u32()
		p.Msg = r.str()
		p.Lang = r.str()
	case vfFxpHandle:
		p.Handle = r.str()
	case vfFxpData:
		p.Data = r.str()
	case vfFxpName:
		n := r.u32()
		if r.err == nil && uint64(n) > uint64(len(r.b))/12 {
			r.err = errVfShort
		}
		for i := uint32(0); i < n && r.err == nil; i++ {
			var e vfName
			e.Name = r.str()
			e.Long = r.str()
			a := r.attrs()
			if a != nil {
				e.Attrs = *a
			}
			if r.err == nil {
				p.Names = append(p.Names, e)
			}
		}
	case vfFxpAttrs:
		p.Attrs = r.attrs()
	case vfFxpExtended:
		p.ExtName = r.str()
		if r.err != nil {
			break
		}
		switch string(p.ExtName) {
		case vfExtStatVFS:
			p.Path = r.str()
		case vfExtPosixRename, vfExtHardlink:
			p.Path = r.str()
			p.Path2 = r.str()
		case vfExtFsync:
			p.Handle = r.str()
		default:
			p.Raw = append([]byte{}, r.b...)
			r.b = nil
		}
	case vfFxpExtendedReply:
		p.Raw = append([]byte{}, r.b...)
		if len(r.b) == 88 {
			for i := 0; i < 11; i++ {
				p.VFS = append(p.VFS, r.u64())
			}
			p.Raw = nil
		} else {
			r.b = nil
		}
	default:
		return nil, nil, fmt.Errorf("vfwire: unknown packet type %d", p.Type)
	}
	if r.err != nil {
		return nil, nil, r.err
	}
	return p, r.b, nil
}

// vfSplitFrames cuts a byte stream into complete frames (bodies without the
// length prefix). bad is true when the next frame's declared length is 0 or
// exceeds the 256 KiB limit; tail holds the bytes that did not form a frame.
func vfSplitFrames(stream []byte) (bodies [][]byte, tail []byte, bad bool) {
	for len(stream) >= 4 {
		n := binary.BigEndian.Uint32(stream)
		if n == 0 || n > vfMaxTapFrame {
			return bodies, stream, true
		}
		if uint64(len(stream)-4) < uint64(n) {
			return bodies, stream, false
		}
		bodies = append(bodies, stream[4:4+n])
		stream = stream[4+n:]
	}
	return bodies, stream, false
}

func vfIsRequestType(t byte) bool { return (t >= 3 && t <= 20) || t == vfFxpExtended }

func vfTypeName(t byte) string {
	names := map[byte]string{1: "INIT", 2: "VERSION", 3: "OPEN", 4: "CLOSE", 5: "READ", 6: "WRITE", 7: "LSTAT", 8: "FSTAT",
		9: "SETSTAT", 10: "FSETSTAT", 11: "OPENDIR", 12: "READDIR", 13: "REMOVE", 14: "MKDIR", 15: "RMDIR", 16: "REALPATH",
		17: "STAT", 18: "RENAME", 19: "READLINK", 20: "SYMLINK", 101: "STATUS", 102: "HANDLE", 103: "DATA", 104: "NAME",
		105: "ATTRS", 200: "EXTENDED", 201: "EXTENDED_REPLY"}
	if n, ok := names[t]; ok {
		return n
	}
	return fmt.Sprintf("TYPE%d", t)
}

func vfStatus(id, code uint32, msg string) *vfPkt {
	return &vfPkt{Type: vfFxpStatus, ID: id, Code: code, Msg: []byte(msg)}
}
