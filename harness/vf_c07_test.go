package sftp_test

// C07 — no byte stream can crash, wedge or trick a server (fault enumeration).

import (
	"bytes"
	"encoding/binary"
	"fmt"
	"reflect"
	"sort"
	"testing"

	"pgregory.net/rapid"
)

type vfStreamMut struct {
	Kind  string // none | cut | lenfield | type | framelen | insert | append | replace
	Frame int    `json:",omitempty"` // index into the tail
	Field int    `json:",omitempty"` // which length/count field of that frame
	Val   uint32 `json:",omitempty"`
	Cut   int    `json:",omitempty"` // cut: byte offset into the tail
	Bytes []byte `json:",omitempty"`
}

type vfCaseC07 struct {
	// request ids start at 100+IDDelta (mod 2^32): small ids coincide with the numbers a server gives the
	// requests internally, a coincidence nothing may hinge on (seed C07-g)
	IDDelta uint32 `json:",omitempty"`
	Srv     vfSrvCfg
	Sync    []vfReq // sent one by one (always well-formed)
	Tail    []vfReq // rendered, mutated and sent in one piece, followed by EOF
	Mut     vfStreamMut
}

func vfGenC07Session(t *rapid.T) vfCaseC07 {
	c := vfCaseC07{Srv: vfGenSrvCfg(t)}
	c.IDDelta = rapid.SampledFrom([]uint32{0, 0, 1<<32 - 100, 1<<32 - 99, 1<<32 - 98, 1<<32 - 96, 1<<32 - 93, 1<<32 - 101}).Draw(t, "iddelta")
	vfMaybeReadOnly(t, &c.Srv)
	c.Srv.CloseKeepsRead = rapid.Bool().Draw(t, "closekeepsread")
	c.Srv.HOpts.OpenFile = false
	c.Sync = []vfReq{{T: "OPEN", P: 0, Pflags: 1}, {T: "OPEN", P: 13, Pflags: 1}, {T: "OPEN", P: 8, Pflags: 0x1a}, {T: "OPENDIR", P: 1}}
	ns := rapid.IntRange(0, 3).Draw(t, "nsync")
	for i := 0; i < ns; i++ {
		r := vfGenReq(t, []string{"STAT", "MKDIR", "READDIR", "OPEN", "CLOSE", "SETSTAT", "RENAME"})
		if r.T == "RENAME" {
			// never rename a file an open handle of this session refers to, nor move anything into the directory
			// the tail lists: a handle follows its file, and a WRITE through it racing with a STAT or READDIR of
			// the new name would make the reported size a matter of scheduling
			src := map[int]bool{4: true, 5: true, 6: true, 7: true}
			if !src[r.P] {
				r.P = 4 + r.P%4
			}
			r.P2 = 9
		}
		c.Sync = append(c.Sync, r)
	}
	tail := vfGenC18(t) // conflict-free burst grammar
	n := rapid.IntRange(1, 8).Draw(t, "ntail")
	for _, r := range tail.Phases[0].Burst {
		if len(c.Tail) < n {
			// the grammar's handles 4 and 5 (read+write opens) do not exist in this session
			if r.H == 5 {
				continue
			}
			if r.H == 4 {
				r.H = 0
			}
			if r.T == "READ" && r.Len > 300 && r.Len < 262144 {
				r.Len = 300
			}
			c.Tail = append(c.Tail, r)
		}
	}
	// always something with a visible side effect near the end
	c.Tail = append(c.Tail, vfReq{T: "MKDIR", P: 9}, vfReq{T: "WRITE", H: 2, Off: 5000, Len: 3})
	return c
}

func vfGenStreamMut(t *rapid.T, ntail int) vfStreamMut {
	m := vfStreamMut{Frame: rapid.IntRange(0, ntail-1).Draw(t, "frame")}
	switch rapid.IntRange(0, 9).Draw(t, "mutkind") {
	case 0, 1:
		m.Kind = "cut"
		m.Cut = rapid.IntRange(0, 400).Draw(t, "cut")
	case 2, 3, 4:
		m.Kind = "lenfield"
		m.Field = rapid.IntRange(0, 3).Draw(t, "field")
		m.Val = rapid.SampledFrom([]uint32{0, 1, 0xfffffffe, 0xffffffff, 1<<31 - 1, 256 * 1024, 3, 4, 5, 7}).Draw(t, "val")
		if rapid.Bool().Draw(t, "rel") {
			m.Kind = "lenfieldrel"
			m.Val = uint32(rapid.SampledFrom([]int{-1, 1, 2, -2, 4}).Draw(t, "delta"))
		}
	case 5, 6:
		m.Kind = "type"
		m.Val = uint32(rapid.Byte().Draw(t, "type"))
		if rapid.Bool().Draw(t, "validtype") {
			m.Val = uint32(rapid.SampledFrom(vfC07TypeBytes).Draw(t, "typeof"))
		}
	case 7:
		m.Kind = "framelen"
		m.Val = rapid.SampledFrom([]uint32{0, 1, 2, 4, 5, 256*1024 + 1, 1<<32 - 1, 1 << 31}).Draw(t, "framelen")
		if rapid.Bool().Draw(t, "rel") {
			m.Kind = "framelenrel"
			m.Val = uint32(rapid.SampledFrom([]int{-1, 1, -4, 4, 9}).Draw(t, "delta"))
		}
	case 8:
		m.Kind = "insert"
		m.Bytes = rapid.SliceOfN(rapid.Byte(), 1, 12).Draw(t, "garbage")
	default:
		m.Kind = "append"
		m.Bytes = rapid.SliceOfN(rapid.Byte(), 1, 12).Draw(t, "garbage")
	}
	return m
}

func vfGenC07(t *rapid.T) vfCaseC07 {
	c := vfGenC07Session(t)
	c.Mut = vfGenStreamMut(t, len(c.Tail))
	return c
}

// vfWellFormedRequest: the server-side notion of a well-formed packet: known
// request type and every field the type requires inside the frame. OPEN,
// SETSTAT, FSETSTAT and MKDIR are well-formed once their flags word is there
// (a short attribute block is answered with a failure status, not a hang-up).
func vfWellFormedRequest(body []byte) bool {
	if len(body) < 1 {
		return false
	}
	t := body[0]
	if !(t == vfFxpInit || vfIsRequestType(t)) {
		return false
	}
	if _, _, err := vfDecodeBody(body); err == nil {
		return true
	}
	r := &vfR{b: body[1:]}
	switch t {
	case vfFxpExtended:
		// any name other than the three extensions the servers implement is an
		// opaque, unsupported request: well-formed once id and name are there
		r.u32()
		name := r.str()
		switch string(name) {
		case vfExtStatVFS, vfExtPosixRename, vfExtHardlink:
			return false
		}
		return r.err == nil
	case vfFxpOpen:
		r.u32()
		r.str()
		r.u32()
		r.u32()
		return r.err == nil
	case vfFxpSetstat, vfFxpFsetstat, vfFxpMkdir:
		r.u32()
		r.str()
		r.u32()
		return r.err == nil
	}
	return false
}

// vfSplitWellFormed returns how many leading frames of stream are complete and
// well-formed, and the offset at which the first malformed packet starts.
func vfSplitWellFormed(stream []byte) (n int, off int) {
	for len(stream)-off >= 4 {
		ln := binary.BigEndian.Uint32(stream[off:])
		if ln == 0 || ln > vfMaxFrame || uint64(len(stream)-off-4) < uint64(ln) {
			return n, off
		}
		if !vfWellFormedRequest(stream[off+4 : off+4+int(ln)]) {
			return n, off
		}
		off += 4 + int(ln)
		n++
	}
	return n, off
}

func vfApplyStreamMut(frames [][]byte, lens [][]int, m vfStreamMut) []byte {
	join := func(fs [][]byte) []byte {
		var b []byte
		for _, f := range fs {
			b = append(b, f...)
		}
		return b
	}
	fs := make([][]byte, len(frames))
	for i := range frames {
		fs[i] = append([]byte{}, frames[i]...)
	}
	if len(fs) == 0 {
		return append([]byte{}, m.Bytes...)
	}
	k := m.Frame
	if k < 0 || k >= len(fs) {
		k = len(fs) - 1
	}
	switch m.Kind {
	case "cut":
		all := join(fs)
		c := m.Cut
		if c > len(all) {
			c = len(all)
		}
		return all[:c]
	case "lenfield", "lenfieldrel":
		if len(lens[k]) > 0 {
			off := 4 + lens[k][m.Field%len(lens[k])]
			if off+4 <= len(fs[k]) {
				v := m.Val
				if m.Kind == "lenfieldrel" {
					v += binary.BigEndian.Uint32(fs[k][off:])
				}
				binary.BigEndian.PutUint32(fs[k][off:], v)
			}
		}
	case "type":
		fs[k][4] = byte(m.Val)
	case "framelen", "framelenrel":
		v := m.Val
		if m.Kind == "framelenrel" {
			v += binary.BigEndian.Uint32(fs[k])
		}
		binary.BigEndian.PutUint32(fs[k], v)
	case "insert":
		fs[k] = append(append([]byte{}, m.Bytes...), fs[k]...)
	case "append":
		return append(join(fs), m.Bytes...)
	case "replace":
		return append([]byte{}, m.Bytes...)
	}
	return join(fs)
}

type vfC07Result struct {
	pkts     []*vfPkt
	stream   []byte
	root     string
	snap     []vfTreeEntry
	calls    []vfHCall
	files    map[string]string
	tailOff  int // number of replies before the tail was sent
	serveErr error
}

// vfC07Run runs the sync part, then sends `tail(frames)` in one piece. When
// waitReplies >= 0 it waits for that many tail replies before hanging up (the
// twin); otherwise it lets the server settle and hangs up (the mutated run).
func vfC07Run(ctx *vfCtx, c *vfCaseC07, tail func(frames [][]byte, lens [][]int) []byte, waitReplies int, key string) *vfC07Result {
	baseline := vfPkgGoroutineIDs()
	kind := c.Srv.Kind
	ps := vfStartProg(ctx, c.Srv, 100+c.IDDelta, 1)
	defer ps.cleanup()
	res := &vfC07Result{root: ps.root}
	if ps.root != "" {
		vfC18FixTimes(ps.root)
	}
	fdBase := 0
	if ps.root != "" {
		fdBase = len(vfOpenFDsBelow(ps.root))
	}
	for _, r := range c.Sync {
		before := len(ps.reqs)
		p := ps.env.build(r, ps.id())
		ps.reqs = append(ps.reqs, p)
		ps.srv.Send(p)
		if !ps.srv.AwaitReplies(ctx, len(ps.reqs)) {
			ctx.Failf(key+"/no-reply/"+kind, "no reply to a well-formed synchronous %s", r.T)
		}
		ps.learn(before)
	}
	res.tailOff = len(ps.reqs)
	var frames [][]byte
	var lens [][]int
	for _, r := range c.Tail {
		p := ps.env.build(r, ps.id())
		body, l := vfEncodeBodyMap(p)
		frames = append(frames, vfFrame(body))
		lens = append(lens, l)
	}
	data := tail(frames, lens)
	ps.srv.SendRaw(data)
	if waitReplies >= 0 {
		if !ps.srv.AwaitReplies(ctx, res.tailOff+waitReplies) {
			pk, _, _, _ := ps.srv.Replies()
			ctx.Failf(key+"/twin-missing-replies/"+kind, "%d well-formed requests sent, server idle after %d replies\n%s", res.tailOff+waitReplies, len(pk), vfDumpRelevant())
		}
	}
	vfSettle(ctx)
	ps.srv.link.C2S.closeWrite()
	if !vfAwait(ctx, ps.srv.done, "Serve to return") {
		ctx.Failf(key+"/serve-hangs/"+kind, "Serve never returns\n%s", vfDumpRelevant())
	}
	res.serveErr = ps.srv.serveErr
	vfCheckNoLeak(ctx, key+"/leak/"+kind, baseline)
	res.stream = ps.srv.link.S2C.Tap()
	var tailBytes []byte
	var bad bool
	res.pkts, _, tailBytes, bad = ps.srv.Replies()
	if bad || len(tailBytes) != 0 {
		ctx.Failf(key+"/response-framing/"+kind, "the response stream is not a sequence of frames")
	}
	if ps.root != "" {
		if fds := vfOpenFDsBelow(ps.root); len(fds) != fdBase {
			ctx.Failf(key+"/fd-leak/"+kind, "after Serve returned these files below the served root are still open: %v", fds)
		}
		res.snap = vfSnapshot(ps.root)
	} else {
		h := ps.srv.h
		res.calls = h.Calls()
		res.files = map[string]string{}
		h.mu.Lock()
		for k, f := range h.files {
			f.mu.Lock()
			res.files[k] = fmt.Sprintf("dir=%v link=%q mode=%v data=%s", f.dir, f.link, f.mode, vfSum(f.data))
			f.mu.Unlock()
		}
		h.mu.Unlock()
		for _, o := range h.Objs() {
			o.mu.Lock()
			closes, kindO := o.closes, o.kind
			o.mu.Unlock()
			if closes != 1 {
				ctx.Failf(key+"/object-closes/"+kindO, "handler object #%d (%s for %s) was closed %d times by the time Serve returned, want exactly once", o.id, kindO, o.path, closes)
			}
		}
	}
	return res
}

func vfCallsEqual(a, b []vfHCall) string {
	if len(a) != len(b) {
		return fmt.Sprintf("%d handler calls vs %d", len(a), len(b))
	}
	for i := range a {
		x, y := a[i], b[i]
		if x.Handler != y.Handler || x.Method != y.Method || x.Filepath != y.Filepath || x.Target != y.Target || x.Flags != y.Flags || !bytes.Equal(x.Attrs, y.Attrs) {
			return fmt.Sprintf("call %d: %s %s(%s,%s) vs %s %s(%s,%s)", i, x.Handler, x.Method, x.Filepath, x.Target, y.Handler, y.Method, y.Filepath, y.Target)
		}
	}
	return ""
}

// vfCallsMultisetEqual compares call logs ignoring order (rw vs cmd workers run in parallel).
func vfCallsMultisetEqual(a, b []vfHCall) string {
	ks := func(cs []vfHCall) []string {
		var out []string
		for _, x := range cs {
			out = append(out, fmt.Sprintf("%s|%s|%s|%s|%d|%x", x.Handler, x.Method, x.Filepath, x.Target, x.Flags, x.Attrs))
		}
		sort.Strings(out)
		return out
	}
	x, y := ks(a), ks(b)
	if !reflect.DeepEqual(x, y) {
		for i := 0; i < len(x) || i < len(y); i++ {
			if i >= len(x) || i >= len(y) || x[i] != y[i] {
				var xa, ya string
				if i < len(x) {
					xa = x[i]
				}
				if i < len(y) {
					ya = y[i]
				}
				return fmt.Sprintf("handler calls differ: %q vs %q (%d vs %d calls)", xa, ya, len(x), len(y))
			}
		}
	}
	return ""
}

// vfC07Compare: what the mutated run did must be what the twin did when the
// stream stopped just before the first malformed packet.
func vfC07Compare(ctx *vfCtx, c *vfCaseC07, a, twin *vfC07Result, one vfCaseC07, nWell int) {
	kind := c.Srv.Kind
	fail := func(key, format string, args ...any) {
		ctx.FailAlt("one", one, key, "mutation %+v (first %d tail packets well-formed): %s", one.Mut, nWell, fmt.Sprintf(format, args...))
	}
	if len(a.pkts) > len(twin.pkts) {
		extra := a.pkts[len(twin.pkts)]
		fail("C07/extra-response/"+kind+"/"+vfTypeName(extra.Type), "the server emitted %d responses, only %d requests were well-formed; first extra: %s", len(a.pkts), len(twin.pkts), vfPktString(extra))
	}
	for i := range a.pkts {
		x, y := a.pkts[i], twin.pkts[i]
		if kind == "os" {
			x, y = vfC18Normalise(x, a.root), vfC18Normalise(y, twin.root)
		}
		if !vfPktEqual(x, y) {
			fail("C07/response-differs/"+kind+"/"+vfTypeName(twin.pkts[i].Type), "response %d is %s, the correct response is %s", i, vfPktString(x), vfPktString(y))
		}
	}
	if kind == "os" {
		if d := vfSnapshotDiff(a.snap, twin.snap, false); d != "" {
			fail("C07/acted-on-malformed/os", "served tree differs from the tree after the well-formed prefix: %s", d)
		}
	} else {
		if d := vfCallsMultisetEqual(a.calls, twin.calls); d != "" {
			fail("C07/acted-on-malformed/rs", "%s", d)
		}
		if !reflect.DeepEqual(a.files, twin.files) {
			fail("C07/acted-on-malformed/rs-files", "handler files differ: %v vs %v", a.files, twin.files)
		}
	}
}

func vfRunC07One(ctx *vfCtx, c vfCaseC07) {
	kind := c.Srv.Kind
	ctx.Class("server=" + kind)
	ctx.Class("mut=" + c.Mut.Kind)
	var nWell int
	mutate := func(frames [][]byte, lens [][]int) []byte {
		data := vfApplyStreamMut(frames, lens, c.Mut)
		nWell, _ = vfSplitWellFormed(data)
		return data
	}
	a := vfC07Run(ctx, &c, mutate, -1, "C07")
	twin := vfC07Run(ctx, &c, func(frames [][]byte, lens [][]int) []byte {
		data := vfApplyStreamMut(frames, lens, c.Mut)
		_, off := vfSplitWellFormed(data)
		return data[:off]
	}, nWell, "C07/twin")
	// A field/type mutation that leaves its frame well-formed turns it into a
	// different valid request, which may conflict with its neighbours (the
	// tail is only conflict-free as generated): then the twin comparison is
	// not deterministic and only termination and resources are checked.
	strict := nWell <= c.Mut.Frame
	switch c.Mut.Kind {
	case "cut", "append", "insert", "none":
		strict = true
	case "replace":
		// arbitrary (fuzzed) streams are not conflict-free: the twin comparison is
		// only deterministic when at most one request is in flight
		strict = nWell <= 1
	}
	if strict {
		vfC07Compare(ctx, &c, a, twin, c, nWell)
	} else {
		ctx.Class("mutated-frame-still-valid")
	}
	if nWell < len(c.Tail) {
		ctx.Class("stream-damaged")
		ctx.NonTrivial()
	}
}

// vfRunC07Enum: every cut offset of the tail of one generated session.
// every request type, the reply types a confused peer might send, and bytes that are no type at all
var vfC07TypeBytes = []byte{1, 2, 3, 4, 5, 6, 7, 8, 9, 10, 11, 12, 13, 14, 15, 16, 17, 18, 19, 20, 200, 201, 0, 21, 101, 102, 105, 255}

func vfRunC07Enum(ctx *vfCtx, c vfCaseC07) {
	kind := c.Srv.Kind
	ctx.Class("server=" + kind)
	total := 0
	probe := c
	probe.Mut = vfStreamMut{Kind: "none"}
	var tailLens [][]int
	full := vfC07Run(ctx, &probe, func(frames [][]byte, lens [][]int) []byte {
		d := vfApplyStreamMut(frames, lens, probe.Mut)
		total = len(d)
		tailLens = lens
		return d
	}, len(c.Tail), "C07/full")
	_ = full
	twins := map[int]*vfC07Result{}
	runs := 0
	runOne := func(m vfStreamMut) {
		one := c
		one.Mut = m
		vfJournal("C07", "one", vfMustJSON(one))
		var nWell int
		var a *vfC07Result
		if fl := vfProtect(func() {
			a = vfC07Run(ctx, &one, func(frames [][]byte, lens [][]int) []byte {
				d := vfApplyStreamMut(frames, lens, one.Mut)
				nWell, _ = vfSplitWellFormed(d)
				return d
			}, -1, "C07")
		}); fl != nil {
			fl.AltSub, fl.AltCase = "one", one
			panic(fl)
		}
		tw := twins[nWell]
		if tw == nil {
			n := nWell
			tw = vfC07Run(ctx, &one, func(frames [][]byte, lens [][]int) []byte {
				var b []byte
				for _, f := range frames[:n] {
					b = append(b, f...)
				}
				return b
			}, n, "C07/twin")
			twins[nWell] = tw
		}
		vfC07Compare(ctx, &one, a, tw, one, nWell)
		runs++
	}
	// a mutation inside a frame is judged the way the "one" sub-check judges it (its twin is the well-formed
	// prefix of the mutated stream, and a frame that stays well-formed is only held to termination and clean-up)
	runMut := func(m vfStreamMut) {
		one := c
		one.Mut = m
		vfJournal("C07", "one", vfMustJSON(one))
		if fl := vfProtect(func() { vfRunC07One(ctx, one) }); fl != nil {
			fl.AltSub, fl.AltCase = "one", one
			panic(fl)
		}
		runs++
	}
	// every cut offset (a sample of 600 when the tail is longer)
	var offs []int
	if total <= 600 {
		for k := 0; k < total; k++ {
			offs = append(offs, k)
		}
	} else {
		for k := 0; k < total; k += 1 + total/600 {
			offs = append(offs, k)
		}
	}
	for _, k := range offs {
		runOne(vfStreamMut{Kind: "cut", Cut: k})
	}
	cuts := runs
	// every frame x every request type byte (and a few that are none) - a request re-typed into another
	// request of the same layout is well-formed and must be served and cleaned up like any other (seed C07-c)
	for k := range tailLens {
		for _, tb := range vfC07TypeBytes {
			runMut(vfStreamMut{Kind: "type", Frame: k, Val: uint32(tb)})
		}
	}
	// every length / count field x the hostile values
	for k := range tailLens {
		for f := range tailLens[k] {
			for _, v := range []uint32{0, 1, 1<<31 - 1, 1<<32 - 1, 256 * 1024} {
				runMut(vfStreamMut{Kind: "lenfield", Frame: k, Field: f, Val: v})
			}
			for _, d := range []int{-1, 1} {
				runMut(vfStreamMut{Kind: "lenfieldrel", Frame: k, Field: f, Val: uint32(d)})
			}
		}
	}
	vfAddExtra("field_and_type_mutations_enumerated", runs-cuts)
	runs = cuts
	vfAddExtra("cut_offsets_enumerated", runs)
	ctx.NonTrivial()
}

func TestVerifC07(t *testing.T) {
	t.Run("one", func(t *testing.T) {
		vfDriveSub(t, "one", vfProp[vfCaseC07]{ID: "C07", Gen: vfGenC07, Run: vfRunC07One})
	})
	t.Run("enum", func(t *testing.T) {
		defer vfScaleChecks(40)()
		vfDriveSub(t, "enum", vfProp[vfCaseC07]{ID: "C07", Gen: vfGenC07Session, Run: vfRunC07Enum})
	})
}
