package sftp_test

// C09 — a read-only server never changes the file system.

import (
	"fmt"
	"os"
	"testing"

	"pgregory.net/rapid"
)

type vfCaseC09 struct {
	Alloc   bool
	Reqs    []vfReq
	Extra   bool   `json:",omitempty"` // further options that do nothing observable here (seed C09-d)
	OptPerm uint32 `json:",omitempty"` // order in which the options are given
	MaxTx   uint32 `json:",omitempty"`
}

var vfC09Modifying = map[string]bool{"WRITE": true, "SETSTAT": true, "FSETSTAT": true, "REMOVE": true, "MKDIR": true, "RMDIR": true, "RENAME": true, "SYMLINK": true, "POSIXRENAME": true, "HARDLINK": true}

func vfGenC09(t *rapid.T) vfCaseC09 {
	c := vfCaseC09{Alloc: rapid.Bool().Draw(t, "alloc")}
	c.Extra = rapid.Bool().Draw(t, "extraopts")
	if rapid.Bool().Draw(t, "shuffleopts") {
		c.OptPerm = rapid.Uint32Range(1, 1<<20).Draw(t, "optperm")
	}
	c.MaxTx = rapid.SampledFrom([]uint32{0, 0, 65536}).Draw(t, "maxtx")
	// first obtain handles, then try to modify through them and around them
	c.Reqs = []vfReq{{T: "OPEN", P: 0, Pflags: 1}, {T: "OPENDIR", P: 1}}
	n := rapid.IntRange(1, 15).Draw(t, "n")
	kinds := []string{"OPEN", "OPEN", "WRITE", "WRITE", "FSETSTAT", "FSETSTAT", "SETSTAT", "REMOVE", "MKDIR", "RMDIR", "RENAME", "SYMLINK", "POSIXRENAME", "HARDLINK",
		"READ", "FSTAT", "READDIR", "STAT", "LSTAT", "READLINK", "REALPATH", "STATVFS", "CLOSE", "OPENDIR", "EXTUNKNOWN"}
	for i := 0; i < n; i++ {
		r := vfGenReq(t, kinds)
		if r.T == "OPEN" {
			r.Pflags = uint32(rapid.IntRange(0, 63).Draw(t, "allpflags"))
		}
		if r.T == "WRITE" || r.T == "FSETSTAT" || r.T == "READ" || r.T == "FSTAT" {
			r.H = rapid.SampledFrom([]int{0, 0, 0, 1, 2, 3, -1}).Draw(t, "h")
		}
		if r.T == "SETSTAT" || r.T == "FSETSTAT" {
			r.AF = rapid.IntRange(0, 31).Draw(t, "af")
		}
		c.Reqs = append(c.Reqs, r)
	}
	return c
}

// vfC09Attrs: like vfProgAttrs, plus uid/gid (bit 1): chown to 0:0 changes
// nothing for root but is a modifying request by definition.
func vfC09Attrs(af int) *vfAttrs {
	a := vfProgAttrs(af, 5)
	if af&2 != 0 {
		a.Flags |= vfAttrUIDGID
	}
	return a
}

func vfRunC09(ctx *vfCtx, c vfCaseC09) {
	baseline := vfPkgGoroutineIDs()
	rootA, rootB := vfTempDir("vfro"), vfTempDir("vfrw")
	defer os.RemoveAll(rootA)
	defer os.RemoveAll(rootB)
	vfMkTree(rootA)
	vfMkTree(rootB)
	vfC18FixTimes(rootA)
	vfC18FixTimes(rootB)
	ro, err := vfStartSrv(vfSrvCfg{Kind: "os", Alloc: c.Alloc, ReadOnly: true, Extra: c.Extra, OptPerm: c.OptPerm, MaxTx: c.MaxTx}, rootA, nil)
	if err != nil {
		ctx.Failf("harness/server", "%v", err)
	}
	rw, err := vfStartSrv(vfSrvCfg{Kind: "os", Alloc: c.Alloc, Extra: c.Extra, OptPerm: c.OptPerm, MaxTx: c.MaxTx}, rootB, nil)
	if err != nil {
		ctx.Failf("harness/server", "%v", err)
	}
	ro.Init(ctx)
	rw.Init(ctx)
	initial := vfSnapshot(rootA)
	envA, envB := &vfProgEnv{}, &vfProgEnv{}
	placeholder := map[int]bool{} // handle indices the read-only server refused
	nA, nB := 1, 1
	modAttempts := 0
	diverged := false // the twin's tree no longer equals the read-only tree: its answers to reading requests stop being a reference
	for i, r := range c.Reqs {
		id := uint32(100 + i)
		pa, pb := envA.build(r, id), envB.build(r, id)
		if r.T == "SETSTAT" || r.T == "FSETSTAT" {
			pa.Attrs, pb.Attrs = vfC09Attrs(r.AF), vfC09Attrs(r.AF)
		}
		usesPlaceholder := false
		switch r.T {
		case "CLOSE", "READ", "WRITE", "FSTAT", "FSETSTAT", "READDIR":
			if r.H >= 0 && len(envA.handles) > 0 && placeholder[r.H%len(envA.handles)] {
				usesPlaceholder = true
			}
		}
		before := vfSnapshot(rootB)
		ro.Send(pa)
		rw.Send(pb)
		nA++
		nB++
		if !ro.AwaitReplies(ctx, nA) || !rw.AwaitReplies(ctx, nB) {
			ctx.Failf("C09/no-reply", "request %d (%s) got no reply\n%s", i, r.T, vfDumpRelevant())
		}
		ra, _, _, _ := ro.Replies()
		rb, _, _, _ := rw.Replies()
		repA, repB := ra[len(ra)-1], rb[len(rb)-1]
		twinChanged := vfSnapshotDiff(before, vfSnapshot(rootB), true) != ""
		wasDiverged := diverged
		if twinChanged {
			diverged = true
		}
		desc := fmt.Sprintf("request %d %+v (%s)", i, r, vfPktString(pa))
		ctx.Class("req=" + r.T)
		if r.T == "OPEN" {
			ctx.Class(fmt.Sprintf("pflags=%#02x", r.Pflags))
		}
		// the hard oracle
		if d := vfSnapshotDiff(initial, vfSnapshot(rootA), true); d != "" {
			key := "C09/modified/" + r.T
			if r.T == "OPEN" {
				key += fmt.Sprintf("/pflags=%#x", r.Pflags&^1&^0x20)
			}
			ctx.Failf(key, "%s changed the tree served read-only: %s (answer: %s)", desc, d, vfPktString(repA))
		}
		denied := repA.Type == vfFxpStatus && repA.Code == vfFxPermissionDenied
		switch {
		case vfC09Modifying[r.T] || twinChanged:
			modAttempts++
			if !denied {
				ctx.Failf("C09/not-denied/"+r.T, "%s is a modifying request (changes the read-write twin: %v) but the read-only server answered %s instead of permission denied", desc, twinChanged, vfPktString(repA))
			}
		case r.T == "OPEN" && r.Pflags&(vfPfWrite|vfPfAppend|vfPfCreat|vfPfTrunc) != 0:
			// asks for write access without changing anything by itself: may be refused or granted
			if !denied && !(repA.Type == repB.Type && repA.Code == repB.Code) {
				ctx.Failf("C09/open-answer/"+fmt.Sprintf("pflags=%#x", r.Pflags), "%s: read-only server answered %s, read-write twin %s", desc, vfPktString(repA), vfPktString(repB))
			}
		case usesPlaceholder || wasDiverged:
			// the twin holds a handle here that the read-only server rightly refused to issue,
			// or its tree has already been changed by an earlier request of this sequence
		default:
			// purely reading: must keep working exactly like on the twin
			if repA.Type != repB.Type || repA.Code != repB.Code {
				ctx.Failf("C09/reading-request-differs/"+r.T, "%s is purely reading but the read-only server answered %s, the read-write twin %s", desc, vfPktString(repA), vfPktString(repB))
			}
		}
		// keep handle indices aligned
		if repB.Type == vfFxpHandle {
			envB.handles = append(envB.handles, string(repB.Handle))
			if repA.Type == vfFxpHandle {
				envA.handles = append(envA.handles, string(repA.Handle))
			} else {
				placeholder[len(envA.handles)] = true
				envA.handles = append(envA.handles, "refused")
			}
		} else if repA.Type == vfFxpHandle && wasDiverged {
			envB.handles = append(envB.handles, "refused")
			envA.handles = append(envA.handles, string(repA.Handle))
		} else if repA.Type == vfFxpHandle {
			ctx.Failf("C09/handle-only-readonly", "%s: read-only server issued a handle, the twin answered %s", desc, vfPktString(repB))
		}
	}
	ro.Hangup(ctx, "C09")
	rw.Hangup(ctx, "C09/twin")
	if d := vfSnapshotDiff(initial, vfSnapshot(rootA), true); d != "" {
		ctx.Failf("C09/modified/at-end", "the tree served read-only changed: %s", d)
	}
	vfCheckNoLeak(ctx, "C09/leak", baseline)
	if modAttempts > 0 {
		ctx.NonTrivial()
	}
}

func TestVerifC09(t *testing.T) {
	t.Run("seq", func(t *testing.T) { vfDriveSub(t, "seq", vfProp[vfCaseC09]{ID: "C09", Gen: vfGenC09, Run: vfRunC09}) })
	t.Run("table", func(t *testing.T) {
		vfEnumerate(t, "table", vfProp[vfCaseC09]{ID: "C09", Run: vfRunC09}, func(yield func(vfCaseC09) bool) {
			k := 0
			emit := func(reqs ...vfReq) bool {
				k++
				if !vfMine(k) {
					return true
				}
				return yield(vfCaseC09{Alloc: k%2 == 0, Reqs: reqs})
			}
			targets := []int{0, 8, 1, 5, 7, 6, 4} // file, missing, dir, link->file, dangling, link->dir, empty dir
			// OPEN: all 64 pflags x targets x {no attrs, permissions}
			for _, p := range targets[:5] {
				for pf := 0; pf < 64; pf++ {
					for _, af := range []int{0, 4} {
						if !emit(vfReq{T: "OPEN", P: p, Pflags: uint32(pf), AF: af}) {
							return
						}
					}
				}
			}
			// SETSTAT / FSETSTAT: all 32 subsets (size, uidgid, permissions, acmodtime, extended)
			for af := 0; af < 32; af++ {
				for _, p := range []int{0, 1, 5} {
					if !emit(vfReq{T: "SETSTAT", P: p, AF: af}) {
						return
					}
				}
				if !emit(vfReq{T: "OPEN", P: 0, Pflags: 1}, vfReq{T: "FSETSTAT", H: 0, AF: af}) {
					return
				}
				if !emit(vfReq{T: "OPENDIR", P: 1}, vfReq{T: "FSETSTAT", H: 0, AF: af}) {
					return
				}
			}
			// every other request type once per target kind
			for _, p := range targets {
				for _, t := range []string{"OPENDIR", "LSTAT", "STAT", "REMOVE", "MKDIR", "RMDIR", "REALPATH", "READLINK", "STATVFS"} {
					if !emit(vfReq{T: t, P: p}) {
						return
					}
				}
				for _, p2 := range targets {
					for _, t := range []string{"RENAME", "SYMLINK", "POSIXRENAME", "HARDLINK"} {
						if !emit(vfReq{T: t, P: p, P2: p2}) {
							return
						}
					}
				}
			}
			// through handles
			for _, t := range []string{"WRITE", "READ", "FSTAT", "READDIR", "CLOSE", "FSYNC"} {
				if !emit(vfReq{T: "OPEN", P: 0, Pflags: 1}, vfReq{T: t, H: 0, Len: 3}) {
					return
				}
				if !emit(vfReq{T: "OPENDIR", P: 1}, vfReq{T: t, H: 0, Len: 3}) {
					return
				}
			}
			// extended names
			for _, n := range []string{"foo@bar", "statvfs@openssh.co", "STATVFS@openssh.com", "fsync@openssh.com", "", "hardlink@openssh.com ", " hardlink@openssh.com", "posix-rename@openssh.com\x00", "Hardlink@openssh.com"} {
				if !emit(vfReq{T: "EXTUNKNOWN", Name: n}) {
					return
				}
			}
			vfSetExtra("table_cases", k)
		})
	})
}
