package sftp

// vf_export_test.go — the ONLY harness file inside package sftp. It re-exports
// the unexported names the checks need; everything else talks to the package
// through its exported API and through the wire (package sftp_test).

import (
	"bytes"
	"encoding"
	"io"
	"os"
)

type (
	VfInitPacket      = sshFxInitPacket
	VfVersionPacket   = sshFxVersionPacket
	VfExtensionPair   = extensionPair
	VfSSHExtPair      = sshExtensionPair
	VfReaddirPacket   = sshFxpReaddirPacket
	VfOpendirPacket   = sshFxpOpendirPacket
	VfLstatPacket     = sshFxpLstatPacket
	VfStatPacket      = sshFxpStatPacket
	VfFstatPacket     = sshFxpFstatPacket
	VfClosePacket     = sshFxpClosePacket
	VfRemovePacket    = sshFxpRemovePacket
	VfRmdirPacket     = sshFxpRmdirPacket
	VfSymlinkPacket   = sshFxpSymlinkPacket
	VfHardlinkPacket  = sshFxpHardlinkPacket
	VfReadlinkPacket  = sshFxpReadlinkPacket
	VfRealpathPacket  = sshFxpRealpathPacket
	VfNameAttr        = sshFxpNameAttr
	VfNamePacket      = sshFxpNamePacket
	VfOpenPacket      = sshFxpOpenPacket
	VfReadPacket      = sshFxpReadPacket
	VfRenamePacket    = sshFxpRenamePacket
	VfPosixRenamePkt  = sshFxpPosixRenamePacket
	VfWritePacket     = sshFxpWritePacket
	VfMkdirPacket     = sshFxpMkdirPacket
	VfSetstatPacket   = sshFxpSetstatPacket
	VfFsetstatPacket  = sshFxpFsetstatPacket
	VfHandlePacket    = sshFxpHandlePacket
	VfStatusPacket    = sshFxpStatusPacket
	VfDataPacket      = sshFxpDataPacket
	VfStatvfsPacket   = sshFxpStatvfsPacket
	VfFsyncPacket     = sshFxpFsyncPacket
	VfExtendedPacket  = sshFxpExtendedPacket
	VfExtStatVFS      = sshFxpExtendedPacketStatVFS
	VfExtPosixRename  = sshFxpExtendedPacketPosixRename
	VfExtHardlink     = sshFxpExtendedPacketHardlink
	VfStatResponse    = sshFxpStatResponse
	VfUnexpectedIDErr = unexpectedIDErr
)

var (
	VfMarshalUint32       = marshalUint32
	VfMarshalUint64       = marshalUint64
	VfMarshalString       = marshalString
	VfMarshalFileStat     = marshalFileStat
	VfMarshalFileInfo     = marshalFileInfo
	VfUnmarshalUint32Safe = unmarshalUint32Safe
	VfUnmarshalUint64Safe = unmarshalUint64Safe
	VfUnmarshalStringSafe = unmarshalStringSafe
	VfUnmarshalAttrs      = unmarshalAttrs
	VfUnmarshalFileStat   = unmarshalFileStat
	VfUnmarshalExtPair    = unmarshalExtensionPair
	VfUnmarshalStatus     = unmarshalStatus
	VfToFileMode          = toFileMode
	VfFromFileMode        = fromFileMode
	VfToChmodPerm         = toChmodPerm
	VfIsRegular           = isRegular
	VfNormaliseError      = normaliseError
	VfCleanPath           = cleanPath
	VfCleanPathWithBase   = cleanPathWithBase
	VfToPflags            = toPflags
	VfFileStatFromInfo    = fileStatFromInfo
	VfFileInfoFromStat    = fileInfoFromStat
)

const VfMaxMsgLength = maxMsgLength

func VfSendPacket(w io.Writer, m encoding.BinaryMarshaler) error { return sendPacket(w, m) }

// VfSendBytes renders m through sendPacket (length prefix included).
func VfSendBytes(m encoding.BinaryMarshaler) ([]byte, error) {
	var buf bytes.Buffer
	err := sendPacket(&buf, m)
	return buf.Bytes(), err
}

// VfRecvPacket runs the framing decoder; withAlloc selects the allocator path.
func VfRecvPacket(r io.Reader, withAlloc bool, orderID uint32) (byte, []byte, error) {
	var a *allocator
	if withAlloc {
		a = newAllocator()
	}
	t, b, err := recvPacket(r, a, orderID)
	return byte(t), b, err
}

// VfMakePacket decodes a request body (without the type byte).
func VfMakePacket(typ byte, body []byte) (any, error) {
	p, err := makePacket(rxPacket{fxp(typ), body})
	if p == nil {
		return nil, err
	}
	return p, err
}

func VfNewStatusPacket(id, code uint32, msg, lang string) *sshFxpStatusPacket {
	return &sshFxpStatusPacket{ID: id, StatusError: StatusError{Code: code, msg: msg, lang: lang}}
}

func VfStatusFields(err error) (code uint32, msg, lang string, ok bool) {
	se, ok := err.(*StatusError)
	if !ok {
		return 0, "", "", false
	}
	return se.Code, se.msg, se.lang, true
}

func VfStatusFromError(id uint32, err error) (code uint32, msg string) {
	p := statusFromError(id, err)
	return p.StatusError.Code, p.StatusError.msg
}

func VfNewStatResponse(id uint32, fi os.FileInfo) *sshFxpStatResponse {
	return &sshFxpStatResponse{ID: id, info: fi}
}

func VfRunLs(lookup NameLookupFileLister, fi os.FileInfo) string { return runLs(lookup, fi) }

func VfRequestAttributes(flags uint32, attrs []byte) *FileStat {
	r := &Request{Flags: flags, Attrs: attrs}
	return r.Attributes()
}

// ---- allocator (C18) --------------------------------------------------------

type VfAllocator struct{ a *allocator }

func VfNewAllocator() *VfAllocator              { return &VfAllocator{newAllocator()} }
func (v *VfAllocator) GetPage(id uint32) []byte { return v.a.GetPage(id) }
func (v *VfAllocator) ReleasePages(id uint32)   { v.a.ReleasePages(id) }
func (v *VfAllocator) Free()                    { v.a.Free() }
func (v *VfAllocator) Used() int                { return v.a.countUsedPages() }
func (v *VfAllocator) Available() int           { return v.a.countAvailablePages() }
func (v *VfAllocator) IsUsed(id uint32) bool    { return v.a.isRequestOrderIDUsed(id) }
func VfServerAllocUsed(s *Server) (int, int, bool) {
	if s.pktMgr.alloc == nil {
		return 0, 0, false
	}
	return s.pktMgr.alloc.countUsedPages(), s.pktMgr.alloc.countAvailablePages(), true
}
func VfRequestServerAllocUsed(s *RequestServer) (int, int, bool) {
	if s.pktMgr.alloc == nil {
		return 0, 0, false
	}
	return s.pktMgr.alloc.countUsedPages(), s.pktMgr.alloc.countAvailablePages(), true
}

// VfResetGlobals puts the package-level configuration back to its defaults.
func VfResetGlobals() {
	sftpExtensions = supportedSFTPExtensions
	MaxFilelist = 100
}

func VfCurrentExtensions() [][2]string {
	out := make([][2]string, 0, len(sftpExtensions))
	for _, e := range sftpExtensions {
		out = append(out, [2]string{e.Name, e.Data})
	}
	return out
}
