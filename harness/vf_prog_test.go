package sftp_test

// vf_prog_test.go — raw request programs: a small grammar of SFTP requests with
// symbolic handle references, rendered to frames by the reference codec.

import (
	"fmt"
	"os"
	"runtime"
	"strings"
	"time"

	"pgregory.net/rapid"
)

type vfReq struct {
	T      string // OPEN OPENDIR CLOSE READ WRITE FSTAT FSETSTAT READDIR LSTAT STAT SETSTAT REMOVE MKDIR RMDIR REALPATH RENAME READLINK SYMLINK STATVFS POSIXRENAME HARDLINK EXTUNKNOWN FSYNC
	P      int    `json:",omitempty"` // path index
	P2     int    `json:",omitempty"`
	H      int    `json:",omitempty"` // handle reference: >=0 index into the handles obtained so far (mod their number); -1 bogus; -2 empty string
	Pflags uint32 `json:",omitempty"`
	AF     int    `json:",omitempty"` // attribute flag subset index (0..15, bit 4 = extended)
	Off    int    `json:",omitempty"`
	Len    int    `json:",omitempty"`
	Name   string `json:",omitempty"` // EXTUNKNOWN name
}

var vfProgPaths = []string{"file", "dir", "dir/a", "dir/b", "empty", "lfile", "ldir", "ldangling", "new1", "new2", "dir/new", "missing/x", "dir/sub", "dir/sub/x", "new3", "big"}

var vfReqKinds = []string{"OPEN", "OPEN", "OPENDIR", "CLOSE", "CLOSE", "READ", "READ", "READ", "WRITE", "WRITE", "FSTAT", "FSETSTAT", "READDIR", "LSTAT", "STAT",
	"SETSTAT", "REMOVE", "MKDIR", "RMDIR", "REALPATH", "RENAME", "READLINK", "SYMLINK", "STATVFS", "POSIXRENAME", "HARDLINK", "EXTUNKNOWN"}

func vfGenReq(t *rapid.T, kinds []string) vfReq {
	r := vfReq{T: rapid.SampledFrom(kinds).Draw(t, "t")}
	r.P = rapid.IntRange(0, len(vfProgPaths)-1).Draw(t, "p")
	switch r.T {
	case "OPEN":
		r.Pflags = uint32(rapid.SampledFrom([]int{1, 1, 2, 3, 0x1a, 0x0a, 0x2a, 0x0b, 0x13, 0, 4, 0x3f}).Draw(t, "pflags"))
		if rapid.IntRange(0, 3).Draw(t, "openattrs") == 0 {
			r.AF = 4 // permissions
		}
	case "CLOSE", "FSTAT", "READDIR", "FSYNC":
		r.H = rapid.IntRange(-2, 12).Draw(t, "h")
	case "READ":
		r.H = rapid.SampledFrom([]int{0, 0, 0, 1, 2, 2, 3, -1, 4, 5, 6, 9}).Draw(t, "h")
		r.Off = rapid.SampledFrom([]int{0, 0, 1, 100, 299, 300, 301, 5000}).Draw(t, "off")
		r.Len = rapid.SampledFrom([]int{0, 1, 10, 300, 4096, 32768, 32769, 100000, 262144, 262145, 1 << 20, 1<<32 - 1}).Draw(t, "len")
	case "WRITE":
		r.H = rapid.SampledFrom([]int{1, 1, 1, 2, 2, 0, 3, -1, 4, 5, 6, 9}).Draw(t, "h")
		r.Off = rapid.SampledFrom([]int{0, 0, 1, 100, 300, 1000}).Draw(t, "off")
		r.Len = rapid.SampledFrom([]int{0, 1, 10, 300, 4096}).Draw(t, "len")
	case "FSETSTAT":
		r.H = rapid.IntRange(-1, 12).Draw(t, "h")
		r.AF = rapid.SampledFrom([]int{0, 1, 4, 8, 5, 9, 12, 13}).Draw(t, "af")
	case "SETSTAT":
		r.AF = rapid.SampledFrom([]int{0, 1, 4, 8, 5, 9, 12, 13}).Draw(t, "af")
	case "RENAME", "POSIXRENAME", "HARDLINK", "SYMLINK":
		r.P2 = rapid.IntRange(0, len(vfProgPaths)-1).Draw(t, "p2")
	case "EXTUNKNOWN":
		r.Name = rapid.SampledFrom([]string{"foo@bar", "statvfs@openssh.co", "STATVFS@openssh.com", "fsync@openssh.com", "", "hardlink@openssh.com "}).Draw(t, "extname")
	}
	return r
}

// vfProgAttrs builds the attribute block for a subset index; values are fixed
// (no uid/gid changes: they need not be permitted on every host).
func vfProgAttrs(af int, size uint64) *vfAttrs {
	a := &vfAttrs{}
	if af&1 != 0 {
		a.Flags |= vfAttrSize
		a.Size = size
	}
	if af&4 != 0 {
		a.Flags |= vfAttrPermissions
		a.Perm = 0o640
	}
	if af&8 != 0 {
		a.Flags |= vfAttrACModTime
		a.Atime, a.Mtime = 1111111111, 1222222222
	}
	if af&16 != 0 {
		a.Flags |= vfAttrExtended
		a.Ext = []vfExt{{[]byte("k@v"), []byte("data")}}
	}
	return a
}

type vfProgEnv struct {
	prefix  string   // path prefix ("" = relative to the working directory, "/" for the request server)
	handles []string // every handle obtained so far, in order
}

func (e *vfProgEnv) path(i int) []byte {
	return []byte(e.prefix + vfProgPaths[i%len(vfProgPaths)])
}

func (e *vfProgEnv) handle(h int) []byte {
	switch {
	case h == -2:
		return nil
	case h < 0 || len(e.handles) == 0:
		return []byte("nope")
	}
	return []byte(e.handles[h%len(e.handles)])
}

// build renders a request; id is assigned by the caller.
func (e *vfProgEnv) build(r vfReq, id uint32) *vfPkt {
	p := &vfPkt{ID: id}
	switch r.T {
	case "OPEN":
		p.Type, p.Path, p.Pflags, p.Attrs = vfFxpOpen, e.path(r.P), r.Pflags, vfProgAttrs(r.AF, 0)
	case "OPENDIR":
		p.Type, p.Path = vfFxpOpendir, e.path(r.P)
	case "CLOSE":
		p.Type, p.Handle = vfFxpClose, e.handle(r.H)
	case "READ":
		p.Type, p.Handle, p.Offset, p.Len = vfFxpRead, e.handle(r.H), uint64(r.Off), uint32(r.Len)
	case "WRITE":
		p.Type, p.Handle, p.Offset, p.Data = vfFxpWrite, e.handle(r.H), uint64(r.Off), vfPRFBytes(uint32(id), r.Off, r.Len)
	case "FSTAT":
		p.Type, p.Handle = vfFxpFstat, e.handle(r.H)
	case "FSETSTAT":
		p.Type, p.Handle, p.Attrs = vfFxpFsetstat, e.handle(r.H), vfProgAttrs(r.AF, 123)
	case "READDIR":
		p.Type, p.Handle = vfFxpReaddir, e.handle(r.H)
	case "LSTAT":
		p.Type, p.Path = vfFxpLstat, e.path(r.P)
	case "STAT":
		p.Type, p.Path = vfFxpStat, e.path(r.P)
	case "SETSTAT":
		p.Type, p.Path, p.Attrs = vfFxpSetstat, e.path(r.P), vfProgAttrs(r.AF, 77)
	case "REMOVE":
		p.Type, p.Path = vfFxpRemove, e.path(r.P)
	case "MKDIR":
		p.Type, p.Path = vfFxpMkdir, e.path(r.P)
	case "RMDIR":
		p.Type, p.Path = vfFxpRmdir, e.path(r.P)
	case "REALPATH":
		p.Type, p.Path = vfFxpRealpath, e.path(r.P)
	case "RENAME":
		p.Type, p.Path, p.Path2 = vfFxpRename, e.path(r.P), e.path(r.P2)
	case "READLINK":
		p.Type, p.Path = vfFxpReadlink, e.path(r.P)
	case "SYMLINK":
		p.Type, p.Path, p.Path2 = vfFxpSymlink, []byte(vfProgPaths[r.P%len(vfProgPaths)]), e.path(r.P2)
	case "STATVFS":
		p.Type, p.ExtName, p.Path = vfFxpExtended, []byte(vfExtStatVFS), e.path(r.P)
		if e.prefix == "" {
			// the os-backed server resolves statvfs paths against the process directory (DESIGN section 5 k): use an absolute path
			p.Path = []byte("/")
		}
	case "POSIXRENAME":
		p.Type, p.ExtName, p.Path, p.Path2 = vfFxpExtended, []byte(vfExtPosixRename), e.path(r.P), e.path(r.P2)
	case "HARDLINK":
		p.Type, p.ExtName, p.Path, p.Path2 = vfFxpExtended, []byte(vfExtHardlink), e.path(r.P), e.path(r.P2)
	case "FSYNC":
		p.Type, p.ExtName, p.Handle = vfFxpExtended, []byte(vfExtFsync), e.handle(r.H)
	case "EXTUNKNOWN":
		p.Type, p.ExtName, p.Raw = vfFxpExtended, []byte(r.Name), []byte{0, 0, 0, 1, 'x'}
	default:
		panic("vf: unknown request kind " + r.T)
	}
	return p
}

// vfLegalReply reports whether reply is a legal answer to req by the draft.
func vfLegalReply(req, reply *vfPkt) string {
	if reply.Type == vfFxpStatus && req.Type != vfFxpInit {
		switch req.Type {
		case vfFxpClose, vfFxpWrite, vfFxpSetstat, vfFxpFsetstat, vfFxpRemove, vfFxpMkdir, vfFxpRmdir, vfFxpRename, vfFxpSymlink:
			return ""
		case vfFxpExtended:
			if string(req.ExtName) != vfExtStatVFS {
				return ""
			}
		}
		if reply.Code == vfFxOK {
			return fmt.Sprintf("%s answered with STATUS OK (a data-bearing request cannot succeed with a bare status)", vfTypeName(req.Type))
		}
		return ""
	}
	want := byte(0)
	switch req.Type {
	case vfFxpInit:
		want = vfFxpVersion
	case vfFxpOpen, vfFxpOpendir:
		want = vfFxpHandle
	case vfFxpRead:
		want = vfFxpData
	case vfFxpReaddir:
		want = vfFxpName
	case vfFxpLstat, vfFxpStat, vfFxpFstat:
		want = vfFxpAttrs
	case vfFxpRealpath, vfFxpReadlink:
		want = vfFxpName
		if reply.Type == vfFxpName && len(reply.Names) != 1 {
			return fmt.Sprintf("%s answered with %d names", vfTypeName(req.Type), len(reply.Names))
		}
	case vfFxpExtended:
		if string(req.ExtName) == vfExtStatVFS {
			want = vfFxpExtendedReply
		}
	}
	if want == 0 || reply.Type != want {
		return fmt.Sprintf("%s answered with %s", vfTypeName(req.Type), vfTypeName(reply.Type))
	}
	return ""
}

// vfSettle waits until every goroutine with package or harness frames is
// parked (twice in a row): the server has done all it can with its input.
func vfSettle(ctx *vfCtx) {
	start := time.Now()
	for {
		for i := 0; i < 30; i++ {
			runtime.Gosched()
		}
		if q, _ := vfQuiescent(); q {
			for i := 0; i < 10; i++ {
				runtime.Gosched()
			}
			if q2, rel2 := vfQuiescent(); q2 {
				if os.Getenv("VF_DEBUG_SETTLE") != "" {
					time.Sleep(time.Millisecond)
					if q3, rel3 := vfQuiescent(); !q3 {
						var sb strings.Builder
						sb.WriteString("SETTLE-DEBUG: quiescent twice, then not. Second sample:\n")
						for _, g := range rel2 {
							sb.WriteString(fmt.Sprintf("  g%d [%s] %s\n", g.ID, g.State, firstFrame(g.Stack)))
						}
						sb.WriteString("third sample:\n")
						for _, g := range rel3 {
							sb.WriteString(fmt.Sprintf("  g%d [%s] %s\n", g.ID, g.State, firstFrame(g.Stack)))
						}
						fmt.Fprintln(os.Stderr, sb.String())
						continue
					}
				}
				return
			}
		}
		if time.Since(start) > 2*time.Millisecond {
			time.Sleep(100 * time.Microsecond)
		}
		if time.Since(start) > 60*time.Second {
			ctx.Inconclusivef("process does not settle within 60s\n%s", vfDumpRelevant())
		}
	}
}

// vfHTree gives the request-server backend the same tree vfMkTree builds on disk.
func firstFrame(stack string) string {
	lines := strings.Split(stack, "\n")
	if len(lines) > 1 {
		return lines[1]
	}
	return ""
}

// vfBigFile is longer than an allocator page / the largest frame (256 KiB), so that reads around that
// boundary return data (seed C18-c).
var vfBigFile = vfPRFBytes(9, 0, 270000)

func vfHTree(h *vfH) {
	h.addFile("/file", vfPRFBytes(1, 0, 300))
	h.addFile("/big", append([]byte{}, vfBigFile...))
	h.addDir("/dir")
	h.addFile("/dir/a", []byte("a"))
	h.addFile("/dir/b", []byte("bb"))
	h.addDir("/dir/sub")
	h.addFile("/dir/sub/x", []byte("xxxx"))
	h.addDir("/empty")
	h.addSymlink("/lfile", "file")
	h.addSymlink("/ldir", "dir")
	h.addSymlink("/ldangling", "nothing")
}

func vfRmTree(root string) { os.RemoveAll(root) }
