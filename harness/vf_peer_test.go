package sftp_test

// vf_peer_test.go — a scripted SFTP server over a model file system, driven by
// the reference codec. It exists because the package's own servers always
// answer in order and never lie: this one can permute, fail, mutate and cut.

import (
	"encoding/binary"
	"fmt"
	"path"
	"runtime"
	"sort"
	"strings"
	"sync"
)

type vfNode struct {
	Kind   string // "file" | "dir" | "symlink"
	Data   []byte
	Perm   uint32 // permission bits + special bits (POSIX)
	Mtime  uint32
	Atime  uint32
	UID    uint32
	GID    uint32
	Target string
}

func (n *vfNode) mode() uint32 {
	switch n.Kind {
	case "dir":
		return 0o040000 | n.Perm
	case "symlink":
		return 0o120000 | n.Perm
	}
	return 0o100000 | n.Perm
}

// skewed applies the configured error to the size a STAT/LSTAT/FSTAT reports: what a stat says and what the
// handle then delivers may differ (the file was replaced or has grown or shrunk in between).
func (p *vfPeer) skewed(a *vfAttrs) *vfAttrs {
	if p.sizeSkew != 0 {
		if v := int64(a.Size) + p.sizeSkew; v >= 0 {
			a.Size = uint64(v)
		} else {
			a.Size = 0
		}
	}
	return a
}

func (n *vfNode) attrs() *vfAttrs {
	a := &vfAttrs{Flags: vfAttrSize | vfAttrUIDGID | vfAttrPermissions | vfAttrACModTime, Size: uint64(len(n.Data)),
		UID: n.UID, GID: n.GID, Perm: n.mode(), Atime: n.Atime, Mtime: n.Mtime}
	if n.Kind == "symlink" {
		a.Size = uint64(len(n.Target))
	}
	return a
}

type vfPeerHandle struct {
	path   string
	node   *vfNode
	dir    bool
	names  []string
	diroff int
	flags  uint32
	closed bool
}

// vfPeerReq records one received request.
type vfPeerReq struct {
	Pkt      *vfPkt
	Raw      []byte // frame body
	Bad      string // non-empty when the frame did not decode as a request
	Reply    []byte // the frame this peer answered with (after mutation), nil if none
	ReqEnd   int    // offset in the client->peer stream just after this request
	ReplyEnd int    // offset in the peer->client stream just after the reply (0 = not written yet)
}

type vfPeer struct {
	end *vfEnd

	mu       sync.Mutex
	fs       map[string]*vfNode
	handles  map[string]*vfPeerHandle
	nhandle  int
	exts     []vfExt
	version  uint32
	batch    int   // READDIR batch size
	sizeSkew int64 // added to every size reported by STAT/LSTAT/FSTAT
	reqs     []vfPeerReq
	maxOut   int // largest number of replies held at once
	closedHs map[string]bool

	// policies
	window     int   // hold up to this many replies (0/1 = answer at once)
	order      []int // i-th release picks held[order[i] % len(held)]
	released   int
	failAt     map[uint64]uint32 // READ/WRITE offset -> status code
	failMsg    func(off uint64, code uint32) string
	mutate     func(idx int, req *vfPkt, frame []byte) []byte // may return nil to drop the reply
	shortRead  map[uint64]int                                 // READ offset -> max bytes returned (honest peers never use this)
	onRequest  func(idx int, req *vfPkt)
	outOfFIFO  int    // number of releases that bypassed an older held reply
	versionRaw []byte // when set, sent verbatim instead of the VERSION frame

	held []vfHeldReply
	done chan struct{}
}

type vfHeldReply struct {
	idx   int
	frame []byte
}

func newVfPeer(end *vfEnd) *vfPeer {
	p := &vfPeer{end: end, fs: map[string]*vfNode{"/": {Kind: "dir", Perm: 0o755, Mtime: 1000000000, Atime: 1000000000}},
		handles: map[string]*vfPeerHandle{}, version: 3, batch: 100, closedHs: map[string]bool{}, done: make(chan struct{})}
	p.exts = []vfExt{{[]byte(vfExtHardlink), []byte("1")}, {[]byte(vfExtPosixRename), []byte("1")}, {[]byte(vfExtStatVFS), []byte("2")}}
	return p
}

func (p *vfPeer) addFile(name string, data []byte) *vfNode {
	n := &vfNode{Kind: "file", Data: data, Perm: 0o644, Mtime: 1100000000, Atime: 1100000000}
	p.fs[name] = n
	return n
}

func (p *vfPeer) addDir(name string) *vfNode {
	n := &vfNode{Kind: "dir", Perm: 0o755, Mtime: 1200000000, Atime: 1200000000}
	p.fs[name] = n
	return n
}

func (p *vfPeer) addSymlink(name, target string) *vfNode {
	n := &vfNode{Kind: "symlink", Perm: 0o777, Target: target, Mtime: 1300000000, Atime: 1300000000}
	p.fs[name] = n
	return n
}

func vfPeerClean(s []byte) string {
	q := path.Clean("/" + string(s))
	return q
}

// resolve follows symlinks (bounded).
func (p *vfPeer) resolve(name string, depth int) (string, *vfNode) {
	n := p.fs[name]
	for n != nil && n.Kind == "symlink" && depth < 8 {
		t := n.Target
		if !strings.HasPrefix(t, "/") {
			t = path.Join(path.Dir(name), t)
		}
		name = path.Clean(t)
		n = p.fs[name]
		depth++
	}
	return name, n
}

func (p *vfPeer) children(dir string) []string {
	var out []string
	pre := dir
	if pre != "/" {
		pre += "/"
	}
	for k := range p.fs {
		if k != "/" && strings.HasPrefix(k, pre) && !strings.Contains(k[len(pre):], "/") {
			out = append(out, k[len(pre):])
		}
	}
	sort.Strings(out)
	return out
}

// Serve runs until the client closes its write side (or the link is cut).
func (p *vfPeer) Serve() {
	defer close(p.done)
	defer p.end.Close()
	idx := 0
	consumed := 0
	for {
		var hdr [4]byte
		if !p.readFull(hdr[:]) {
			break
		}
		n := binary.BigEndian.Uint32(hdr[:])
		if n == 0 || n > vfMaxFrame {
			p.mu.Lock()
			p.reqs = append(p.reqs, vfPeerReq{Bad: fmt.Sprintf("frame length %d", n)})
			p.mu.Unlock()
			break
		}
		body := make([]byte, n)
		if !p.readFull(body) {
			p.mu.Lock()
			p.reqs = append(p.reqs, vfPeerReq{Bad: "truncated frame", Raw: body})
			p.mu.Unlock()
			break
		}
		consumed += 4 + int(n)
		req, _, err := vfDecodeBody(body)
		rec := vfPeerReq{Pkt: req, Raw: body, ReqEnd: consumed}
		if err != nil || !(vfIsRequestType(body[0]) || body[0] == vfFxpInit) {
			rec.Bad = fmt.Sprintf("undecodable request type %d: %v", body[0], err)
			p.mu.Lock()
			p.reqs = append(p.reqs, rec)
			p.mu.Unlock()
			continue
		}
		if p.onRequest != nil {
			p.onRequest(idx, req)
		}
		p.mu.Lock()
		reply := p.handle(req)
		frame := vfEncode(reply)
		if req.Type == vfFxpInit && p.versionRaw != nil {
			frame = p.versionRaw
		}
		p.mu.Unlock()
		if p.mutate != nil {
			frame = p.mutate(idx, req, frame)
		}
		rec.Reply = frame
		p.mu.Lock()
		p.reqs = append(p.reqs, rec)
		slot := len(p.reqs) - 1
		p.mu.Unlock()
		if frame != nil {
			p.emit(slot, frame, req.Type == vfFxpInit)
		}
		idx++
	}
	// flush whatever is still held, in the drawn order
	for len(p.held) > 0 {
		p.releaseOne()
	}
}

// readFull reads exactly len(b) bytes; before blocking it gives held replies a
// chance to go out (the client may be waiting for them).
func (p *vfPeer) readFull(b []byte) bool {
	got := 0
	for got < len(b) {
		if len(p.held) > 0 && p.end.in.Pending() == 0 {
			// nothing to read right now: let the client run, then release one reply if it is still idle
			for i := 0; i < 30 && p.end.in.Pending() == 0; i++ {
				runtime.Gosched()
			}
			if p.end.in.Pending() == 0 {
				p.releaseOne()
				continue
			}
		}
		n, err := p.end.Read(b[got:])
		got += n
		if err != nil {
			return false
		}
	}
	return true
}

func (p *vfPeer) emit(idx int, frame []byte, now bool) {
	if p.window <= 1 || now {
		p.write(idx, frame)
		return
	}
	p.held = append(p.held, vfHeldReply{idx, frame})
	if len(p.held) > p.maxOut {
		p.maxOut = len(p.held)
	}
	for len(p.held) >= p.window {
		p.releaseOne()
	}
}

func (p *vfPeer) releaseOne() {
	if len(p.held) == 0 {
		return
	}
	k := 0
	if len(p.order) > 0 {
		k = p.order[p.released%len(p.order)] % len(p.held)
		if k < 0 {
			k = -k
		}
	}
	p.released++
	if k != 0 {
		p.outOfFIFO++
	}
	h := p.held[k]
	p.held = append(p.held[:k], p.held[k+1:]...)
	p.write(h.idx, h.frame)
}

// write sends one reply and records where it ends in the peer->client stream.
func (p *vfPeer) write(slot int, frame []byte) {
	p.end.Write(frame)
	end := p.end.out.TapLen()
	p.mu.Lock()
	if slot >= 0 && slot < len(p.reqs) {
		p.reqs[slot].ReplyEnd = end
	}
	p.mu.Unlock()
}

func (p *vfPeer) Requests() []vfPeerReq {
	p.mu.Lock()
	defer p.mu.Unlock()
	return append([]vfPeerReq{}, p.reqs...)
}

func (p *vfPeer) status(id uint32, code uint32, msg string) *vfPkt {
	return &vfPkt{Type: vfFxpStatus, ID: id, Code: code, Msg: []byte(msg), Lang: []byte("en")}
}

func (p *vfPeer) ok(id uint32) *vfPkt { return p.status(id, vfFxOK, "") }

func (p *vfPeer) newHandle(h *vfPeerHandle) string {
	p.nhandle++
	name := fmt.Sprintf("h%d", p.nhandle)
	p.handles[name] = h
	return name
}

// handle computes the honest reply for req against the model (lock held).
func (p *vfPeer) handle(req *vfPkt) *vfPkt {
	id := req.ID
	noSuch := func() *vfPkt { return p.status(id, vfFxNoSuchFile, "no such file") }
	switch req.Type {
	case vfFxpInit:
		return &vfPkt{Type: vfFxpVersion, Version: p.version, Exts: p.exts}
	case vfFxpOpen:
		name := vfPeerClean(req.Path)
		rname, n := p.resolve(name, 0)
		if n == nil {
			if req.Pflags&vfPfCreat == 0 {
				return noSuch()
			}
			if pn := p.fs[path.Dir(rname)]; pn == nil || pn.Kind != "dir" {
				return noSuch()
			}
			n = &vfNode{Kind: "file", Perm: 0o644, Mtime: 1400000000, Atime: 1400000000}
			p.fs[rname] = n
		} else if req.Pflags&vfPfCreat != 0 && req.Pflags&vfPfExcl != 0 {
			return p.status(id, vfFxFailure, "file exists")
		}
		if n.Kind == "dir" && req.Pflags&(vfPfWrite|vfPfCreat|vfPfTrunc) != 0 {
			return p.status(id, vfFxFailure, "is a directory")
		}
		if req.Pflags&vfPfTrunc != 0 && n.Kind == "file" {
			n.Data = nil
		}
		return &vfPkt{Type: vfFxpHandle, ID: id, Handle: []byte(p.newHandle(&vfPeerHandle{path: rname, node: n, flags: req.Pflags}))}
	case vfFxpOpendir:
		name := vfPeerClean(req.Path)
		rname, n := p.resolve(name, 0)
		if n == nil {
			return noSuch()
		}
		if n.Kind != "dir" {
			return p.status(id, vfFxFailure, "not a directory")
		}
		return &vfPkt{Type: vfFxpHandle, ID: id, Handle: []byte(p.newHandle(&vfPeerHandle{path: rname, node: n, dir: true, names: p.children(rname)}))}
	case vfFxpClose:
		h := p.handles[string(req.Handle)]
		if h == nil {
			return p.status(id, vfFxFailure, "bad handle")
		}
		delete(p.handles, string(req.Handle))
		p.closedHs[string(req.Handle)] = true
		return p.ok(id)
	case vfFxpRead:
		h := p.handles[string(req.Handle)]
		if h == nil || h.dir {
			return p.status(id, vfFxFailure, "bad handle")
		}
		if code, ok := p.failAt[req.Offset]; ok {
			return p.status(id, code, p.failText(req.Offset, code))
		}
		d := h.node.Data
		if req.Offset >= uint64(len(d)) {
			return p.status(id, vfFxEOF, "EOF")
		}
		end := req.Offset + uint64(req.Len)
		if end > uint64(len(d)) {
			end = uint64(len(d))
		}
		out := d[req.Offset:end]
		if m, ok := p.shortRead[req.Offset]; ok && len(out) > m {
			out = out[:m]
		}
		return &vfPkt{Type: vfFxpData, ID: id, Data: append([]byte{}, out...)}
	case vfFxpWrite:
		h := p.handles[string(req.Handle)]
		if h == nil || h.dir {
			return p.status(id, vfFxFailure, "bad handle")
		}
		if code, ok := p.failAt[req.Offset]; ok {
			return p.status(id, code, p.failText(req.Offset, code))
		}
		end := req.Offset + uint64(len(req.Data))
		if end > 1<<26 {
			return p.status(id, vfFxFailure, "too large for the model")
		}
		if len(req.Data) == 0 {
			return p.ok(id) // like pwrite(2): a zero-length write never extends the file
		}
		for uint64(len(h.node.Data)) < end {
			h.node.Data = append(h.node.Data, make([]byte, end-uint64(len(h.node.Data)))...)
		}
		copy(h.node.Data[req.Offset:], req.Data)
		return p.ok(id)
	case vfFxpLstat, vfFxpStat:
		name := vfPeerClean(req.Path)
		n := p.fs[name]
		if req.Type == vfFxpStat {
			_, n = p.resolve(name, 0)
		}
		if n == nil {
			return noSuch()
		}
		return &vfPkt{Type: vfFxpAttrs, ID: id, Attrs: p.skewed(n.attrs())}
	case vfFxpFstat:
		h := p.handles[string(req.Handle)]
		if h == nil {
			return p.status(id, vfFxFailure, "bad handle")
		}
		return &vfPkt{Type: vfFxpAttrs, ID: id, Attrs: p.skewed(h.node.attrs())}
	case vfFxpSetstat, vfFxpFsetstat:
		var n *vfNode
		if req.Type == vfFxpSetstat {
			_, n = p.resolve(vfPeerClean(req.Path), 0)
			if n == nil {
				return noSuch()
			}
		} else {
			h := p.handles[string(req.Handle)]
			if h == nil {
				return p.status(id, vfFxFailure, "bad handle")
			}
			n = h.node
		}
		a := req.Attrs
		if a != nil {
			if a.Flags&vfAttrSize != 0 && n.Kind == "file" {
				if a.Size > 1<<26 {
					return p.status(id, vfFxFailure, "too large for the model")
				}
				for uint64(len(n.Data)) < a.Size {
					n.Data = append(n.Data, 0)
				}
				n.Data = n.Data[:a.Size]
			}
			if a.Flags&vfAttrPermissions != 0 {
				n.Perm = a.Perm & 0o7777
			}
			if a.Flags&vfAttrUIDGID != 0 {
				n.UID, n.GID = a.UID, a.GID
			}
			if a.Flags&vfAttrACModTime != 0 {
				n.Atime, n.Mtime = a.Atime, a.Mtime
			}
		}
		return p.ok(id)
	case vfFxpReaddir:
		h := p.handles[string(req.Handle)]
		if h == nil || !h.dir {
			return p.status(id, vfFxFailure, "bad handle")
		}
		if h.diroff >= len(h.names) {
			return p.status(id, vfFxEOF, "EOF")
		}
		end := h.diroff + p.batch
		if end > len(h.names) {
			end = len(h.names)
		}
		out := &vfPkt{Type: vfFxpName, ID: id}
		for _, nm := range h.names[h.diroff:end] {
			full := path.Join(h.path, nm)
			n := p.fs[full]
			if n == nil {
				continue
			}
			out.Names = append(out.Names, vfName{Name: []byte(nm), Long: []byte("-rw-r--r-- 1 0 0 " + nm), Attrs: *n.attrs()})
		}
		h.diroff = end
		return out
	case vfFxpRemove:
		name := vfPeerClean(req.Path)
		n := p.fs[name]
		if n == nil {
			return noSuch()
		}
		if n.Kind == "dir" {
			return p.status(id, vfFxFailure, "is a directory")
		}
		delete(p.fs, name)
		return p.ok(id)
	case vfFxpMkdir:
		name := vfPeerClean(req.Path)
		if p.fs[name] != nil {
			return p.status(id, vfFxFailure, "file exists")
		}
		if pn := p.fs[path.Dir(name)]; pn == nil || pn.Kind != "dir" {
			return noSuch()
		}
		p.fs[name] = &vfNode{Kind: "dir", Perm: 0o755, Mtime: 1500000000, Atime: 1500000000}
		return p.ok(id)
	case vfFxpRmdir:
		name := vfPeerClean(req.Path)
		n := p.fs[name]
		if n == nil {
			return noSuch()
		}
		if n.Kind != "dir" {
			return p.status(id, vfFxFailure, "not a directory")
		}
		if len(p.children(name)) > 0 {
			return p.status(id, vfFxFailure, "directory not empty")
		}
		delete(p.fs, name)
		return p.ok(id)
	case vfFxpRealpath:
		name := vfPeerClean(req.Path)
		return &vfPkt{Type: vfFxpName, ID: id, Names: []vfName{{Name: []byte(name), Long: []byte(name)}}}
	case vfFxpRename:
		return p.rename(id, req, false)
	case vfFxpReadlink:
		n := p.fs[vfPeerClean(req.Path)]
		if n == nil {
			return noSuch()
		}
		if n.Kind != "symlink" {
			return p.status(id, vfFxFailure, "not a symlink")
		}
		return &vfPkt{Type: vfFxpName, ID: id, Names: []vfName{{Name: []byte(n.Target), Long: []byte(n.Target)}}}
	case vfFxpSymlink:
		// OpenSSH order: first string is the target, second the link path
		link := vfPeerClean(req.Path2)
		if p.fs[link] != nil {
			return p.status(id, vfFxFailure, "file exists")
		}
		if pn := p.fs[path.Dir(link)]; pn == nil || pn.Kind != "dir" {
			return noSuch()
		}
		p.fs[link] = &vfNode{Kind: "symlink", Perm: 0o777, Target: string(req.Path), Mtime: 1600000000, Atime: 1600000000}
		return p.ok(id)
	case vfFxpExtended:
		switch string(req.ExtName) {
		case vfExtStatVFS:
			if p.fs[vfPeerClean(req.Path)] == nil {
				return noSuch()
			}
			return &vfPkt{Type: vfFxpExtendedReply, ID: id, VFS: []uint64{4096, 4096, 1000, 500, 400, 10000, 9000, 9000, 77, 1, 255}}
		case vfExtPosixRename:
			return p.rename(id, req, true)
		case vfExtHardlink:
			_, n := p.resolve(vfPeerClean(req.Path), 0)
			if n == nil {
				return noSuch()
			}
			dst := vfPeerClean(req.Path2)
			if p.fs[dst] != nil {
				return p.status(id, vfFxFailure, "file exists")
			}
			p.fs[dst] = n
			return p.ok(id)
		case vfExtFsync:
			for _, e := range p.exts {
				if string(e.Name) == vfExtFsync {
					if p.handles[string(req.Handle)] == nil {
						return p.status(id, vfFxFailure, "bad handle")
					}
					return p.ok(id)
				}
			}
		}
		return p.status(id, vfFxOpUnsupported, "unsupported")
	}
	return p.status(id, vfFxOpUnsupported, "unsupported")
}

func (p *vfPeer) failText(off uint64, code uint32) string {
	if p.failMsg != nil {
		return p.failMsg(off, code)
	}
	return fmt.Sprintf("injected failure at offset %d", off)
}

func (p *vfPeer) rename(id uint32, req *vfPkt, posix bool) *vfPkt {
	src, dst := vfPeerClean(req.Path), vfPeerClean(req.Path2)
	n := p.fs[src]
	if n == nil {
		return p.status(id, vfFxNoSuchFile, "no such file")
	}
	if p.fs[dst] != nil && !posix {
		return p.status(id, vfFxFailure, "file exists")
	}
	if pn := p.fs[path.Dir(dst)]; pn == nil || pn.Kind != "dir" {
		return p.status(id, vfFxNoSuchFile, "no such file")
	}
	moved := map[string]*vfNode{}
	for k, v := range p.fs {
		if k == src || strings.HasPrefix(k, src+"/") {
			moved[dst+k[len(src):]] = v
			delete(p.fs, k)
		}
	}
	for k, v := range moved {
		p.fs[k] = v
	}
	return p.ok(id)
}

// vfPRF is the content function used for model files: a chunk that lands at a
// wrong offset, or belongs to another file, is visible.
func vfPRF(seed uint32, off int) byte {
	x := uint32(off)*2654435761 + seed*40503 + 0x9e3779b9
	x ^= x >> 15
	x *= 0x2c1b3c6d
	x ^= x >> 12
	return byte(x)
}

func vfPRFBytes(seed uint32, off, n int) []byte {
	b := make([]byte, n)
	for i := range b {
		b[i] = vfPRF(seed, off+i)
	}
	return b
}
