package sftp_test

// C17 — file attributes and modes survive every conversion.

import (
	"fmt"
	"os"
	"regexp"
	"strconv"
	"syscall"
	"testing"
	"time"

	sftp "github.com/pkg/sftp"
	sshfx "github.com/pkg/sftp/internal/encoding/ssh/filexfer"
	"pgregory.net/rapid"
)

// ---- exhaustive conversions ----------------------------------------------------------

type vfCaseC17Word struct {
	Lo, Hi uint32 // wire mode words Lo..Hi-1
}

var vfDefinedNibbles = map[uint32]bool{0o010000: true, 0o020000: true, 0o040000: true, 0o060000: true, 0o100000: true, 0o120000: true, 0o140000: true}

func vfRunC17Words(ctx *vfCtx, c vfCaseC17Word) {
	for w := c.Lo; w < c.Hi; w++ {
		got := sftp.VfToFileMode(w)
		want := vfRefToFileMode(w)
		if got != want {
			ctx.Failf("C17/toFileMode", "toFileMode(%#o) = %v (%#x), POSIX/os.FileMode say %v (%#x)", w, got, uint32(got), want, uint32(want))
		}
		back := sftp.VfFromFileMode(got)
		if vfDefinedNibbles[w&0o170000] {
			if back != w {
				ctx.Failf("C17/roundtrip-word", "fromFileMode(toFileMode(%#o)) = %#o", w, back)
			}
		} else if back&0o7777 != w&0o7777 {
			ctx.Failf("C17/roundtrip-word-perm", "undefined type %#o: permission/special bits %#o became %#o", w&0o170000, w&0o7777, back&0o7777)
		}
		if sftp.VfIsRegular(w) != (w&0o170000 == 0o100000) {
			ctx.Failf("C17/isRegular", "isRegular(%#o) = %v", w, sftp.VfIsRegular(w))
		}
		if s, r := sshfx.FileMode(w).String(), vfRefLsMode(w); s != r {
			ctx.Failf("C17/mode-string", "FileMode(%#o).String() = %q, ls -l renders %q", w, s, r)
		}
	}
	ctx.NonTrivial()
	vfAddExtra("wire_words_checked", int(c.Hi-c.Lo))
}

type vfCaseC17Modes struct {
	Type int // index into vfOSModeTypes
}

func vfRunC17Modes(ctx *vfCtx, c vfCaseC17Modes) {
	typ := vfOSModeTypes[c.Type]
	n := 0
	for perm := os.FileMode(0); perm <= 0o777; perm++ {
		for sp := 0; sp < 8; sp++ {
			m := typ | perm
			if sp&1 != 0 {
				m |= os.ModeSetuid
			}
			if sp&2 != 0 {
				m |= os.ModeSetgid
			}
			if sp&4 != 0 {
				m |= os.ModeSticky
			}
			n++
			got, want := sftp.VfFromFileMode(m), vfRefFromFileMode(m)
			if got != want {
				ctx.Failf("C17/fromFileMode", "fromFileMode(%v) = %#o, want %#o", m, got, want)
			}
			if back := sftp.VfToFileMode(got); back != m {
				ctx.Failf("C17/roundtrip-mode", "toFileMode(fromFileMode(%v)) = %v", m, back)
			}
			wantChmod := uint32(perm)
			if sp&1 != 0 {
				wantChmod |= 0o4000
			}
			if sp&2 != 0 {
				wantChmod |= 0o2000
			}
			if sp&4 != 0 {
				wantChmod |= 0o1000
			}
			if gotC := sftp.VfToChmodPerm(m); gotC != wantChmod {
				ctx.Failf("C17/toChmodPerm", "toChmodPerm(%v) = %#o, want %#o (permission + POSIX special bits, nothing else)", m, gotC, wantChmod)
			}
		}
	}
	ctx.NonTrivial()
	vfAddExtra("file_modes_checked", n)
}

// ---- served attributes -------------------------------------------------------------------

type vfCaseC17Served struct {
	Kind  string // regular | dir | symlink | fifo | socket | chardev | blockdev
	Perm  uint32 // 12 bits
	Size  int
	Mtime int64
	UID   int
	GID   int
	Alloc bool
}

func vfGenC17Served(t *rapid.T) vfCaseC17Served {
	return vfCaseC17Served{
		Kind:  rapid.SampledFrom([]string{"regular", "regular", "dir", "symlink", "fifo", "socket", "chardev", "blockdev"}).Draw(t, "kind"),
		Perm:  uint32(rapid.IntRange(0, 0o7777).Draw(t, "perm")),
		Size:  rapid.SampledFrom([]int{0, 1, 255, 4096, 70000}).Draw(t, "size"),
		Mtime: int64(rapid.SampledFrom([]int{0, 1, 86399, 1000000000, 1700000000, 2147483647, 4000000000}).Draw(t, "mtime")),
		UID:   rapid.IntRange(0, 3).Draw(t, "uid"),
		GID:   rapid.IntRange(0, 3).Draw(t, "gid"),
		Alloc: rapid.Bool().Draw(t, "alloc"),
	}
}

func vfFiDesc(fi os.FileInfo) string {
	uid, gid := uint32(0), uint32(0)
	switch st := fi.Sys().(type) {
	case *syscall.Stat_t:
		uid, gid = st.Uid, st.Gid
	case *sftp.FileStat:
		uid, gid = st.UID, st.GID
	}
	return fmt.Sprintf("size=%d mode=%v mtime=%d uid=%d gid=%d", fi.Size(), fi.Mode(), fi.ModTime().Unix(), uid, gid)
}

func vfRunC17Served(ctx *vfCtx, c vfCaseC17Served) {
	baseline := vfPkgGoroutineIDs()
	root := vfTempDir("vfattr")
	defer os.RemoveAll(root)
	p := root + "/node"
	var err error
	switch c.Kind {
	case "regular":
		err = os.WriteFile(p, make([]byte, c.Size), 0o600)
	case "dir":
		err = os.Mkdir(p, 0o700)
	case "symlink":
		os.WriteFile(root+"/target", make([]byte, c.Size), 0o600)
		err = os.Symlink("target", p)
	case "fifo":
		err = syscall.Mkfifo(p, 0o600)
	case "socket":
		fd, e := syscall.Socket(syscall.AF_UNIX, syscall.SOCK_STREAM, 0)
		if e == nil {
			e = syscall.Bind(fd, &syscall.SockaddrUnix{Name: p})
			syscall.Close(fd)
		}
		err = e
	case "chardev":
		err = syscall.Mknod(p, syscall.S_IFCHR|0o600, 1<<8|3) // /dev/null's numbers
	case "blockdev":
		err = syscall.Mknod(p, syscall.S_IFBLK|0o600, 7<<8|0)
	}
	if err != nil {
		ctx.Class("skipped-cannot-create-" + c.Kind)
		vfAddExtra("skipped_kind_"+c.Kind, 1)
		return
	}
	ctx.Class("kind=" + c.Kind)
	if c.Kind != "symlink" {
		os.Lchown(p, c.UID, c.GID)
		os.Chmod(p, vfRefToFileMode(c.Perm)&^os.ModeType)
		os.Chtimes(p, time.Unix(c.Mtime, 0), time.Unix(c.Mtime, 0))
	} else {
		os.Lchown(p, c.UID, c.GID)
		os.Chmod(root+"/target", vfRefToFileMode(c.Perm)&^os.ModeType)
		os.Chtimes(root+"/target", time.Unix(c.Mtime, 0), time.Unix(c.Mtime, 0))
	}
	srv, err := vfStartSrv(vfSrvCfg{Kind: "os", Alloc: c.Alloc}, root, nil)
	if err != nil {
		ctx.Failf("harness/server", "%v", err)
	}
	cl, err := sftp.NewClientPipe(srv.link.Client, srv.link.Client)
	if err != nil {
		ctx.Failf("harness/client", "%v", err)
	}
	d, r := vfCall(func() (string, error) {
		wantL, err := os.Lstat(p)
		if err != nil {
			return "", err
		}
		gotL, err := cl.Lstat("node")
		if err != nil {
			ctx.Failf("C17/served/lstat-error/"+c.Kind, "Lstat of a %s failed: %v", c.Kind, err)
		}
		if vfFiDesc(gotL) != vfFiDesc(wantL) {
			ctx.Failf("C17/served/lstat/"+c.Kind, "Client.Lstat reports %s, the file system %s", vfFiDesc(gotL), vfFiDesc(wantL))
		}
		wantS, errS := os.Stat(p)
		gotS, errG := cl.Stat("node")
		if (errS == nil) != (errG == nil) {
			ctx.Failf("C17/served/stat-error/"+c.Kind, "Stat: %v vs %v", errG, errS)
		}
		if errS == nil && vfFiDesc(gotS) != vfFiDesc(wantS) {
			ctx.Failf("C17/served/stat/"+c.Kind, "Client.Stat reports %s, the file system %s", vfFiDesc(gotS), vfFiDesc(wantS))
		}
		fis, err := cl.ReadDir(".")
		if err != nil {
			ctx.Failf("C17/served/readdir-error", "%v", err)
		}
		found := false
		for _, fi := range fis {
			if fi.Name() == "node" {
				found = true
				if vfFiDesc(fi) != vfFiDesc(wantL) {
					ctx.Failf("C17/served/readdir/"+c.Kind, "ReadDir reports %s, the file system %s", vfFiDesc(fi), vfFiDesc(wantL))
				}
			}
		}
		if !found {
			ctx.Failf("C17/served/readdir-missing", "node not listed")
		}
		if c.Kind == "regular" || c.Kind == "dir" || c.Kind == "symlink" {
			f, err := cl.Open("node")
			if err != nil {
				ctx.Failf("C17/served/open-error/"+c.Kind, "%v", err)
			}
			fi, err := f.Stat()
			f.Close()
			if err != nil || vfFiDesc(fi) != vfFiDesc(wantS) {
				ctx.Failf("C17/served/fstat/"+c.Kind, "File.Stat reports %v (err %v), the file system %s", fi, err, vfFiDesc(wantS))
			}
		}
		return "", nil
	})
	if !vfAwait(ctx, d, "attribute queries") {
		ctx.Failf("C17/served/hang", "never returns\n%s", vfDumpRelevant())
	}
	if r.Panic != nil {
		if f, ok := r.Panic.(*vfFailure); ok {
			panic(f)
		}
		ctx.Failf("panic/"+vfPanicSite([]byte(r.Stack)), "%v\n%s", r.Panic, vfTrimStack([]byte(r.Stack)))
	}
	if r.Err != nil {
		ctx.Failf("harness/lstat", "%v", r.Err)
	}
	if c.Kind != "regular" || c.Perm&0o7000 != 0 {
		ctx.NonTrivial()
	}
	d2, _ := vfCall(func() (string, error) { return "", cl.Close() })
	vfAwait(ctx, d2, "client close")
	if !vfAwait(ctx, srv.done, "Serve") {
		ctx.Failf("C17/serve-hangs", "Serve never returns")
	}
	vfCheckNoLeak(ctx, "C17/leak", baseline)
}

// ---- set-attributes exactness ---------------------------------------------------------------

type vfCaseC17Set struct {
	Via    string // helpers | setstat | fsetstat | filehelpers
	Subset int    // bit0 size, bit1 uidgid, bit2 permissions, bit3 acmodtime
	Size   uint64
	UID    uint32
	GID    uint32
	Perm   uint32
	Atime  uint32
	Mtime  uint32
	Alloc  bool
}

func vfGenC17Set(t *rapid.T) vfCaseC17Set {
	return vfCaseC17Set{
		Via:    rapid.SampledFrom([]string{"helpers", "setstat", "fsetstat", "filehelpers"}).Draw(t, "via"),
		Subset: rapid.IntRange(0, 15).Draw(t, "subset"),
		Size:   uint64(rapid.SampledFrom([]int{0, 1, 5, 10, 1000}).Draw(t, "size")),
		UID:    uint32(rapid.IntRange(0, 3).Draw(t, "uid")),
		GID:    uint32(rapid.IntRange(0, 3).Draw(t, "gid")),
		Perm:   uint32(rapid.IntRange(0, 0o7777).Draw(t, "perm")),
		Atime:  rapid.SampledFrom([]uint32{0, 1, 1000000000, 1500000001, 2147483647, 4000000000}).Draw(t, "atime"),
		Mtime:  rapid.SampledFrom([]uint32{0, 2, 1000000002, 1600000003, 2147483646, 4100000000}).Draw(t, "mtime"),
		Alloc:  rapid.Bool().Draw(t, "alloc"),
	}
}

func vfStatDesc(p string, withTimes bool) string {
	fi, err := os.Lstat(p)
	if err != nil {
		return "error: " + err.Error()
	}
	st := fi.Sys().(*syscall.Stat_t)
	s := fmt.Sprintf("size=%d mode=%v uid=%d gid=%d", fi.Size(), fi.Mode(), st.Uid, st.Gid)
	if withTimes {
		s += fmt.Sprintf(" atime=%d mtime=%d", st.Atim.Sec, st.Mtim.Sec)
	}
	return s
}

func vfRunC17Set(ctx *vfCtx, c vfCaseC17Set) {
	baseline := vfPkgGoroutineIDs()
	root := vfTempDir("vfset")
	defer os.RemoveAll(root)
	served, twin := root+"/served", root+"/twin"
	t0 := time.Unix(1100000000, 0)
	for _, p := range []string{served, twin} {
		os.WriteFile(p, []byte("0123456789"), 0o644)
		os.Chtimes(p, t0, t0)
	}
	srv, err := vfStartSrv(vfSrvCfg{Kind: "os", Alloc: c.Alloc}, root, nil)
	if err != nil {
		ctx.Failf("harness/server", "%v", err)
	}
	hasSize, hasOwner, hasPerm, hasTime := c.Subset&1 != 0, c.Subset&2 != 0, c.Subset&4 != 0, c.Subset&8 != 0
	atime, mtime := time.Unix(int64(c.Atime), 0), time.Unix(int64(c.Mtime), 0)
	mode := vfRefToFileMode(c.Perm) &^ os.ModeType
	ctx.Class("via=" + c.Via)
	ctx.Class(fmt.Sprintf("subset=%d", c.Subset))
	// the reference: the documented order size, permissions, owner, times
	if hasSize {
		os.Truncate(twin, int64(c.Size))
	}
	if hasPerm {
		os.Chmod(twin, mode)
	}
	if hasOwner {
		os.Chown(twin, int(c.UID), int(c.GID))
	}
	if hasTime {
		os.Chtimes(twin, atime, mtime)
	}
	var opErr error
	switch c.Via {
	case "setstat", "fsetstat":
		srv.Init(ctx)
		a := &vfAttrs{Size: c.Size, UID: c.UID, GID: c.GID, Perm: c.Perm, Atime: c.Atime, Mtime: c.Mtime}
		if hasSize {
			a.Flags |= vfAttrSize
		}
		if hasOwner {
			a.Flags |= vfAttrUIDGID
		}
		if hasPerm {
			a.Flags |= vfAttrPermissions
		}
		if hasTime {
			a.Flags |= vfAttrACModTime
		}
		n := 1
		var rep *vfPkt
		if c.Via == "setstat" {
			srv.Send(&vfPkt{Type: vfFxpSetstat, ID: 5, Path: []byte("served"), Attrs: a})
			n++
		} else {
			srv.Send(&vfPkt{Type: vfFxpOpen, ID: 4, Path: []byte("served"), Pflags: vfPfRead | vfPfWrite})
			n++
			if !srv.AwaitReplies(ctx, n) {
				ctx.Failf("C17/set/no-reply", "OPEN unanswered")
			}
			pk, _, _, _ := srv.Replies()
			if pk[n-1].Type != vfFxpHandle {
				ctx.Failf("harness/open", "%s", vfPktString(pk[n-1]))
			}
			srv.Send(&vfPkt{Type: vfFxpFsetstat, ID: 5, Handle: pk[n-1].Handle, Attrs: a})
			n++
		}
		if !srv.AwaitReplies(ctx, n) {
			ctx.Failf("C17/set/no-reply", "%s unanswered", c.Via)
		}
		pk, _, _, _ := srv.Replies()
		rep = pk[n-1]
		if rep.Type != vfFxpStatus || rep.Code != vfFxOK {
			opErr = fmt.Errorf("%s", vfPktString(rep))
		}
		srv.Hangup(ctx, "C17/set")
	default:
		cl, err := sftp.NewClientPipe(srv.link.Client, srv.link.Client)
		if err != nil {
			ctx.Failf("harness/client", "%v", err)
		}
		d, r := vfCall(func() (string, error) {
			var f *sftp.File
			if c.Via == "filehelpers" {
				var err error
				if f, err = cl.OpenFile("served", os.O_RDWR); err != nil {
					return "", err
				}
				defer f.Close()
			}
			step := func(e error) {
				if e != nil && opErr == nil {
					opErr = e
				}
			}
			if hasSize {
				if f != nil {
					step(f.Truncate(int64(c.Size)))
				} else {
					step(cl.Truncate("served", int64(c.Size)))
				}
			}
			if hasPerm {
				if f != nil {
					step(f.Chmod(mode))
				} else {
					step(cl.Chmod("served", mode))
				}
			}
			if hasOwner {
				if f != nil {
					step(f.Chown(int(c.UID), int(c.GID)))
				} else {
					step(cl.Chown("served", int(c.UID), int(c.GID)))
				}
			}
			if hasTime {
				step(cl.Chtimes("served", atime, mtime)) // File has no Chtimes
			}
			return "", nil
		})
		if !vfAwait(ctx, d, "set-attribute helpers") {
			ctx.Failf("C17/set/hang", "never returns\n%s", vfDumpRelevant())
		}
		if r.Panic != nil {
			ctx.Failf("panic/"+vfPanicSite([]byte(r.Stack)), "%v\n%s", r.Panic, vfTrimStack([]byte(r.Stack)))
		}
		if r.Err != nil {
			ctx.Failf("harness/open", "%v", r.Err)
		}
		d2, _ := vfCall(func() (string, error) { return "", cl.Close() })
		vfAwait(ctx, d2, "client close")
		if !vfAwait(ctx, srv.done, "Serve") {
			ctx.Failf("C17/serve-hangs", "Serve never returns")
		}
	}
	if opErr != nil {
		ctx.Failf("C17/set/error/"+c.Via, "setting subset %04b failed: %v", c.Subset, opErr)
	}
	got, want := vfStatDesc(served, hasTime), vfStatDesc(twin, hasTime)
	if got != want {
		ctx.Failf(fmt.Sprintf("C17/set/%s/subset=%04b", c.Via, c.Subset), "request carrying size=%v owner=%v perm=%v times=%v (size %d, %d:%d, %#o, %d/%d): served file is now %s, the same package os calls give %s",
			hasSize, hasOwner, hasPerm, hasTime, c.Size, c.UID, c.GID, c.Perm, c.Atime, c.Mtime, got, want)
	}
	vfCheckNoLeak(ctx, "C17/leak", baseline)
	if c.Subset&(c.Subset-1) != 0 || c.Perm&0o7000 != 0 {
		ctx.NonTrivial()
	}
}

// ---- long names -------------------------------------------------------------------------------

type vfCaseC17Ls struct {
	FI     vfFI
	SysKnd string // none | uidgid | filestat | stat_t
	Lookup bool
	Nlink  uint64
}

type vfLsInfo struct {
	vfFileInfo
	sys any
}

func (i *vfLsInfo) Sys() any { return i.sys }

var vfLsRe = regexp.MustCompile(`^(\S{10}) +(\d+) (\S+) +(\S+) +(\d+) ([A-Z][a-z]{2}) +(\d{1,2}) +(\d{4}|\d{2}:\d{2}) (.*)$`)

func vfRunC17Ls(ctx *vfCtx, c vfCaseC17Ls) {
	var fi os.FileInfo
	wantUID, wantGID, wantLinks := "0", "0", uint64(1)
	base := vfFileInfo{c.FI}
	switch c.SysKnd {
	case "uidgid":
		fi = &vfFileInfoOwner{base}
		wantUID, wantGID = fmt.Sprint(c.FI.UID), fmt.Sprint(c.FI.GID)
	case "filestat":
		fi = &vfLsInfo{base, &sftp.FileStat{UID: c.FI.UID, GID: c.FI.GID}}
		wantUID, wantGID = fmt.Sprint(c.FI.UID), fmt.Sprint(c.FI.GID)
	case "stat_t":
		fi = &vfLsInfo{base, &syscall.Stat_t{Uid: c.FI.UID, Gid: c.FI.GID, Nlink: c.Nlink}}
		wantUID, wantGID, wantLinks = fmt.Sprint(c.FI.UID), fmt.Sprint(c.FI.GID), c.Nlink
	case "uidgid+ext":
		// owner callbacks together with extended data (seed C17-d)
		b2 := base
		b2.d.Ext = []vfExt{{[]byte("k@v"), []byte("data")}}
		fi = &vfFileInfoOwnerExt{vfFileInfoOwner{b2}}
		wantUID, wantGID = fmt.Sprint(c.FI.UID), fmt.Sprint(c.FI.GID)
	case "stat_t+ext":
		b2 := base
		b2.d.Ext = []vfExt{{[]byte("k@v"), []byte("data")}}
		b2.d.SysStat, b2.d.SUID, b2.d.SGID, b2.d.Nlink = true, c.FI.UID, c.FI.GID, c.Nlink
		fi = &vfFileInfoExt{b2}
		wantUID, wantGID, wantLinks = fmt.Sprint(c.FI.UID), fmt.Sprint(c.FI.GID), c.Nlink
	case "uidgid+stat_t":
		// both sources: the callbacks are the documented override, as in the structured attributes
		b2 := base
		b2.d.SysStat, b2.d.SUID, b2.d.SGID, b2.d.Nlink = true, c.FI.UID+1, c.FI.GID+1, c.Nlink
		fi = &vfFileInfoOwner{b2}
		wantUID, wantGID = fmt.Sprint(c.FI.UID), fmt.Sprint(c.FI.GID)
	default:
		fi = &base
	}
	var lookup sftp.NameLookupFileLister
	if c.Lookup {
		lookup = vfList0001{newVfH()}
		wantUID, wantGID = "u"+wantUID, "g"+wantGID
	}
	text := sftp.VfRunLs(lookup, fi)
	m := vfLsRe.FindStringSubmatch(text)
	if m == nil {
		ctx.Failf("C17/ls/shape", "long name %q does not have the ls -l shape", text)
	}
	wantMode := vfRefLsMode(vfRefFromFileMode(os.FileMode(c.FI.Mode)))
	if m[1] != wantMode {
		ctx.Failf("C17/ls/mode", "long name %q shows mode %q, the attributes say %q", text, m[1], wantMode)
	}
	if n, _ := strconv.ParseUint(m[2], 10, 64); n != wantLinks {
		ctx.Failf("C17/ls/links", "long name %q shows %s links, want %d", text, m[2], wantLinks)
	}
	if m[3] != wantUID || m[4] != wantGID {
		ctx.Failf("C17/ls/owner", "long name %q shows owner %s:%s, want %s:%s", text, m[3], m[4], wantUID, wantGID)
	}
	if sz, _ := strconv.ParseInt(m[5], 10, 64); sz != c.FI.Size {
		ctx.Failf("C17/ls/size", "long name %q shows size %s, the attributes say %d", text, m[5], c.FI.Size)
	}
	mt := time.Unix(c.FI.Mtime, 0)
	if m[6] != mt.Format("Jan") || m[7] != fmt.Sprint(mt.Day()) {
		ctx.Failf("C17/ls/date", "long name %q shows %s %s, the modification time is %s", text, m[6], m[7], mt.Format("Jan 2 2006"))
	}
	if m[9] != string(c.FI.Name) {
		ctx.Failf("C17/ls/name", "long name %q ends in %q, the entry is called %q", text, m[9], c.FI.Name)
	}
	// the structured attributes the same entry is sent with must tell the same story about the owner
	if frame, err := sftp.VfSendBytes(sftp.VfNewStatResponse(1, fi)); err == nil && len(frame) > 4 && c.SysKnd != "filestat" {
		if ap, _, derr := vfDecodeBody(frame[4:]); derr == nil && ap.Attrs != nil {
			au, ag := "0", "0"
			if ap.Attrs.Flags&vfAttrUIDGID != 0 {
				au, ag = fmt.Sprint(ap.Attrs.UID), fmt.Sprint(ap.Attrs.GID)
			}
			lu, lg := m[3], m[4]
			if c.Lookup {
				au, ag = "u"+au, "g"+ag
			}
			if au != lu || ag != lg {
				ctx.Failf("C17/ls/owner-vs-attrs", "long name %q shows owner %s:%s, the attributes of the same entry carry %s:%s (sys=%s)", text, lu, lg, au, ag, c.SysKnd)
			}
		}
	}
	ctx.Class("sys=" + c.SysKnd)
	if os.FileMode(c.FI.Mode)&os.ModeType != 0 || os.FileMode(c.FI.Mode)&(os.ModeSetuid|os.ModeSetgid|os.ModeSticky) != 0 {
		ctx.NonTrivial()
	}
}

// ---- long names of a whole listing ----------------------------------------------------------------------------
//
// The "ls" sub-check renders one entry at a time. A READDIR reply is rendered as a batch, with whatever the
// server shares between the entries of a batch (seed F18: a name cache keyed by the bare number, so that gid 7
// was shown with the name of uid 7). Here a request server whose lister resolves ids to names lists entries
// whose uids and gids are drawn from the same few numbers; the reply is read off the wire and every entry's
// long name must show the name of ITS uid and the name of ITS gid.

type vfCaseC17List struct {
	IDs   [][2]uint32 // uid, gid per entry
	Batch int
	Alloc bool
}

func vfRunC17List(ctx *vfCtx, c vfCaseC17List) {
	baseline := vfPkgGoroutineIDs()
	sftp.VfResetGlobals()
	defer sftp.VfResetGlobals()
	if c.Batch > 0 {
		sftp.MaxFilelist = int64(c.Batch)
	}
	h := newVfH()
	h.addDir("/d")
	var fis []os.FileInfo
	for i, id := range c.IDs {
		fis = append(fis, vfMemInfo{name: fmt.Sprintf("e%03d", i), size: int64(i), mode: 0o644, mtime: 1000000000, uid: id[0], gid: id[1]})
	}
	h.listOverride = map[string][]os.FileInfo{"/d": fis}
	srv, err := vfStartSrv(vfSrvCfg{Kind: "rs", Alloc: c.Alloc, HOpts: vfHOpts{NameLookup: true}}, "", h)
	if err != nil {
		ctx.Failf("harness/server", "%v", err)
	}
	srv.Init(ctx)
	nreq := 1
	send := func(p *vfPkt) *vfPkt {
		srv.Send(p)
		nreq++
		if !srv.AwaitReplies(ctx, nreq) {
			ctx.Failf("C17/list/no-reply", "no reply to %s\n%s", vfPktString(p), vfDumpRelevant())
		}
		pk, _, _, _ := srv.Replies()
		return pk[len(pk)-1]
	}
	rep := send(&vfPkt{Type: vfFxpOpendir, ID: 1, Path: []byte("/d")})
	if rep.Type != vfFxpHandle {
		ctx.Failf("harness/opendir", "%s", vfPktString(rep))
	}
	seen := 0
	for k := 0; k < len(c.IDs)+3; k++ {
		r := send(&vfPkt{Type: vfFxpReaddir, ID: uint32(10 + k), Handle: rep.Handle})
		if r.Type != vfFxpName {
			break
		}
		for _, n := range r.Names {
			var idx int
			if _, err := fmt.Sscanf(string(n.Name), "e%03d", &idx); err != nil || idx >= len(c.IDs) {
				ctx.Failf("C17/list/name", "unexpected entry %q", n.Name)
			}
			m := vfLsRe.FindStringSubmatch(string(n.Long))
			if m == nil {
				ctx.Failf("C17/ls/shape", "long name %q of %q does not have the ls -l shape", n.Long, n.Name)
			}
			wu, wg := fmt.Sprintf("u%d", c.IDs[idx][0]), fmt.Sprintf("g%d", c.IDs[idx][1])
			if m[3] != wu || m[4] != wg {
				ctx.Failf("C17/list/owner-names", "entry %q (uid %d, gid %d; the same reply carries them as %d, %d) has the long name %q: owner %s group %s, want %s %s", n.Name, c.IDs[idx][0], c.IDs[idx][1], n.Attrs.UID, n.Attrs.GID, n.Long, m[3], m[4], wu, wg)
			}
			if n.Attrs.UID != c.IDs[idx][0] || n.Attrs.GID != c.IDs[idx][1] {
				ctx.Failf("C17/list/owner-attrs", "entry %q carries uid %d gid %d, the lister reported %d %d", n.Name, n.Attrs.UID, n.Attrs.GID, c.IDs[idx][0], c.IDs[idx][1])
			}
			seen++
		}
	}
	if seen != len(c.IDs) {
		ctx.Failf("C17/list/count", "%d of %d entries listed", seen, len(c.IDs))
	}
	srv.Hangup(ctx, "C17/list")
	vfCheckNoLeak(ctx, "C17/list/leak", baseline)
	if len(c.IDs) >= 2 {
		ctx.NonTrivial()
	}
}

func TestVerifC17(t *testing.T) {
	t.Run("words", func(t *testing.T) {
		vfEnumerate(t, "words", vfProp[vfCaseC17Word]{ID: "C17", Run: vfRunC17Words}, func(yield func(vfCaseC17Word) bool) {
			for i := 0; i < 256; i++ {
				if vfMine(i) && !yield(vfCaseC17Word{Lo: uint32(i) << 8, Hi: uint32(i+1) << 8}) {
					return
				}
			}
		})
	})
	t.Run("modes", func(t *testing.T) {
		vfEnumerate(t, "modes", vfProp[vfCaseC17Modes]{ID: "C17", Run: vfRunC17Modes}, func(yield func(vfCaseC17Modes) bool) {
			for i := range vfOSModeTypes {
				if vfMine(i) && !yield(vfCaseC17Modes{Type: i}) {
					return
				}
			}
		})
	})
	t.Run("served", func(t *testing.T) {
		vfDriveSub(t, "served", vfProp[vfCaseC17Served]{ID: "C17", Gen: vfGenC17Served, Run: vfRunC17Served})
	})
	t.Run("set", func(t *testing.T) {
		vfDriveSub(t, "set", vfProp[vfCaseC17Set]{ID: "C17", Gen: vfGenC17Set, Run: vfRunC17Set})
	})
	t.Run("setgrid", func(t *testing.T) {
		// every subset x every route, fixed values
		vfEnumerate(t, "set", vfProp[vfCaseC17Set]{ID: "C17", Run: vfRunC17Set}, func(yield func(vfCaseC17Set) bool) {
			k := 0
			for _, via := range []string{"helpers", "setstat", "fsetstat", "filehelpers"} {
				for sub := 0; sub < 16; sub++ {
					k++
					if vfMine(k) && !yield(vfCaseC17Set{Via: via, Subset: sub, Size: 3, UID: 2, GID: 3, Perm: 0o6751, Atime: 1234567890, Mtime: 1345678901}) {
						return
					}
				}
			}
		})
	})
	t.Run("list", func(t *testing.T) {
		defer vfScaleChecks(4)()
		vfDriveSub(t, "list", vfProp[vfCaseC17List]{ID: "C17", Run: vfRunC17List, Gen: func(rt *rapid.T) vfCaseC17List {
			c := vfCaseC17List{Batch: rapid.SampledFrom([]int{0, 1, 2, 3, 100}).Draw(rt, "batch"), Alloc: rapid.Bool().Draw(rt, "alloc")}
			n := rapid.IntRange(1, 12).Draw(rt, "n")
			for i := 0; i < n; i++ {
				c.IDs = append(c.IDs, [2]uint32{uint32(rapid.IntRange(0, 4).Draw(rt, "uid")), uint32(rapid.IntRange(0, 4).Draw(rt, "gid"))})
			}
			return c
		}})
	})
	t.Run("ls", func(t *testing.T) {
		vfDriveSub(t, "ls", vfProp[vfCaseC17Ls]{ID: "C17", Run: vfRunC17Ls, Gen: func(rt *rapid.T) vfCaseC17Ls {
			c := vfCaseC17Ls{FI: vfGenFI(rt, "fi")}
			c.FI.Name = []byte(rapid.StringMatching(`[a-zA-Z0-9._ -]{1,20}`).Draw(rt, "name"))
			c.FI.Size = int64(rapid.SampledFrom([]uint64{0, 1, 99999999, 100000000, 1 << 40, 1<<40 + 7}).Draw(rt, "size"))
			now := time.Now().Unix()
			c.FI.Mtime = rapid.SampledFrom([]int64{0, 1000000000, now - 86400, now - 170*86400, now - 200*86400, now - 3*365*86400, now + 86400}).Draw(rt, "mtime")
			c.FI.SysStat = false // what Sys() returns is this sub-check's own dimension
			c.SysKnd = rapid.SampledFrom([]string{"none", "uidgid", "filestat", "stat_t", "uidgid+stat_t", "uidgid+ext", "stat_t+ext"}).Draw(rt, "sys")
			c.Lookup = rapid.Bool().Draw(rt, "lookup")
			c.Nlink = uint64(rapid.IntRange(1, 12345).Draw(rt, "nlink"))
			return c
		}})
	})
}
