package sftp_test

// vf_obs_test.go — observers: goroutine census, quiescence oracle, fd census,
// tree snapshots.

import (
	"crypto/sha256"
	"encoding/hex"
	"fmt"
	"os"
	"path/filepath"
	"runtime"
	"sort"
	"strconv"
	"strings"
	"sync"
	"syscall"
	"time"
)

var (
	vfStackMu  sync.Mutex
	vfStackBuf = make([]byte, 256<<10)
)

type vfG struct {
	ID        int
	State     string
	CreatedBy string
	Stack     string
	PkgOwned  bool // started by pkg/sftp itself (not by the harness)
	Relevant  bool // pkg/sftp or harness code on its stack
}

func vfIsHarnessFunc(fn string) bool {
	return strings.HasPrefix(fn, "github.com/pkg/sftp_test.") || strings.Contains(fn, ".vf") || strings.Contains(fn, ".Vf") || strings.Contains(fn, ".TestVerif") || strings.Contains(fn, ".FuzzVerif")
}

// vfGoroutines parses a full goroutine dump. The first entry is the caller.
func vfGoroutines() []vfG {
	vfStackMu.Lock()
	defer vfStackMu.Unlock()
	var buf []byte
	for {
		n := runtime.Stack(vfStackBuf, true)
		if n < len(vfStackBuf) {
			buf = vfStackBuf[:n]
			break
		}
		vfStackBuf = make([]byte, 2*len(vfStackBuf))
	}
	var out []vfG
	for _, blk := range strings.Split(string(buf), "\n\n") {
		blk = strings.TrimSpace(blk)
		if !strings.HasPrefix(blk, "goroutine ") {
			continue
		}
		nl := strings.IndexByte(blk, '\n')
		head := blk
		if nl >= 0 {
			head = blk[:nl]
		}
		g := vfG{Stack: blk}
		rest := strings.TrimPrefix(head, "goroutine ")
		if sp := strings.IndexByte(rest, ' '); sp > 0 {
			g.ID, _ = strconv.Atoi(rest[:sp])
		}
		if a, b := strings.IndexByte(head, '['), strings.LastIndexByte(head, ']'); a >= 0 && b > a {
			st := head[a+1 : b]
			if c := strings.IndexByte(st, ','); c >= 0 {
				st = st[:c]
			}
			g.State = st
		}
		if i := strings.LastIndex(blk, "\ncreated by "); i >= 0 {
			cb := blk[i+len("\ncreated by "):]
			if e := strings.IndexAny(cb, " \n"); e >= 0 {
				cb = cb[:e]
			}
			g.CreatedBy = cb
		}
		g.PkgOwned = strings.HasPrefix(g.CreatedBy, "github.com/pkg/sftp") && !vfIsHarnessFunc(g.CreatedBy)
		g.Relevant = strings.Contains(blk, "github.com/pkg/sftp")
		out = append(out, g)
	}
	return out
}

func vfIsParkedState(state string) bool {
	switch state {
	case "chan receive", "chan send", "select", "sync.Mutex.Lock", "sync.RWMutex.RLock", "sync.RWMutex.Lock",
		"sync.Cond.Wait", "sync.WaitGroup.Wait", "chan receive (nil chan)", "chan send (nil chan)", "select (no cases)":
		// NOT "semacquire": that is how a goroutine waits for runtime-internal
		// semaphores (e.g. to start a GC cycle from inside an allocation while
		// our own goroutine dump holds the world semaphore); it is woken by the
		// runtime, not by another goroutine, so it is not a stable parked state.
		return true
	}
	return false
}

// vfQuiescent: every goroutine that has pkg/sftp or harness code on its stack
// (except the caller) is parked on a synchronisation primitive. No harness or
// package goroutine uses timers, so nothing can make progress any more.
func vfQuiescent() (bool, []vfG) {
	gs := vfGoroutines()
	if len(gs) == 0 {
		return false, nil
	}
	var rel []vfG
	for _, g := range gs[1:] {
		if !g.Relevant {
			continue
		}
		// the testing framework's own goroutines waiting for this test
		if strings.Contains(g.Stack, "testing.(*T).Run(") || strings.Contains(g.Stack, "testing.tRunner.func1") && !strings.Contains(g.Stack, "github.com/pkg/sftp_test.") {
			continue
		}
		rel = append(rel, g)
		if !vfIsParkedState(g.State) {
			return false, rel
		}
	}
	return true, rel
}

// vfAwait waits for done. It returns false only when the process is quiescent
// (three consecutive samples) with done still open: then the awaited event can
// never happen. A wall-clock limit only ever yields an inconclusive verdict.
func vfAwait(ctx *vfCtx, done <-chan struct{}, what string) bool {
	for i := 0; i < 40; i++ {
		select {
		case <-done:
			return true
		default:
			runtime.Gosched()
		}
	}
	start := time.Now()
	quiet := 0
	wait := 200 * time.Microsecond
	for {
		select {
		case <-done:
			return true
		case <-time.After(wait):
		}
		if wait < 4*time.Millisecond {
			wait *= 2
		}
		if time.Since(start) < 3*time.Millisecond {
			continue
		}
		if ok, _ := vfQuiescent(); ok {
			quiet++
			if quiet >= 3 {
				select {
				case <-done:
					return true
				default:
				}
				return false
			}
		} else {
			quiet = 0
		}
		if time.Since(start) > 60*time.Second {
			ctx.Inconclusivef("waiting for %s: neither done nor quiescent after 60s\n%s", what, vfDumpRelevant())
		}
	}
}

func vfDumpRelevant() string {
	var sb strings.Builder
	for _, g := range vfGoroutines()[1:] {
		if g.Relevant {
			s := g.Stack
			if len(s) > 1500 {
				s = s[:1500] + "..."
			}
			sb.WriteString(s)
			sb.WriteString("\n\n")
		}
	}
	out := sb.String()
	if len(out) > 12000 {
		out = out[:12000] + "...(truncated)"
	}
	return out
}

// vfPkgGoroutineIDs returns the ids of package-owned goroutines alive now.
func vfPkgGoroutineIDs() map[int]bool {
	m := map[int]bool{}
	for _, g := range vfGoroutines() {
		if g.PkgOwned {
			m[g.ID] = true
		}
	}
	return m
}

// vfCheckNoLeak fails when a goroutine started by pkg/sftp (and not in the
// baseline) survives: it polls while survivors are still running and decides
// once they are parked for good.
func vfCheckNoLeak(ctx *vfCtx, key string, baseline map[int]bool) {
	start := time.Now()
	parkedRounds := 0
	for round := 0; ; round++ {
		var left []vfG
		allParked := true
		for _, g := range vfGoroutines() {
			if g.PkgOwned && !baseline[g.ID] {
				left = append(left, g)
				if !vfIsParkedState(g.State) {
					allParked = false
				}
			}
		}
		if len(left) == 0 {
			return
		}
		if allParked {
			if q, _ := vfQuiescent(); q {
				parkedRounds++
			}
		} else {
			parkedRounds = 0
		}
		if parkedRounds >= 3 {
			g := left[0]
			s := g.Stack
			if len(s) > 2500 {
				s = s[:2500]
			}
			ctx.Failf(key+"/"+vfShortFunc(g.CreatedBy), "%d goroutine(s) started by pkg/sftp survive, parked forever; first:\n%s", len(left), s)
		}
		if time.Since(start) > 30*time.Second {
			ctx.Inconclusivef("goroutines started by pkg/sftp still running after 30s:\n%s", left[0].Stack)
		}
		if round < 50 {
			runtime.Gosched()
		} else {
			time.Sleep(time.Duration(100+round*20) * time.Microsecond)
		}
	}
}

// vfWaitGone waits (bounded) until no goroutine created by a function whose
// name contains pat is left.
func vfWaitGone(pat string) {
	for i := 0; i < 2000; i++ {
		found := false
		for _, g := range vfGoroutines() {
			if strings.Contains(g.CreatedBy, pat) {
				found = true
				break
			}
		}
		if !found {
			return
		}
		if i < 20 {
			runtime.Gosched()
		} else {
			time.Sleep(50 * time.Microsecond)
		}
	}
}

func vfShortFunc(fn string) string {
	fn = strings.TrimPrefix(fn, "github.com/pkg/sftp/internal/encoding/ssh/")
	fn = strings.TrimPrefix(fn, "github.com/pkg/sftp.")
	return fn
}

// ---- fd census ---------------------------------------------------------------

// vfOpenFDsBelow lists /proc/self/fd entries that point below root.
func vfOpenFDsBelow(root string) []string {
	ents, err := os.ReadDir("/proc/self/fd")
	if err != nil {
		return nil
	}
	var out []string
	for _, e := range ents {
		t, err := os.Readlink("/proc/self/fd/" + e.Name())
		if err != nil {
			continue
		}
		if t == root || strings.HasPrefix(t, root+"/") {
			out = append(out, t)
		}
	}
	sort.Strings(out)
	return out
}

// ---- tree snapshot --------------------------------------------------------------

type vfTreeEntry struct {
	Path  string
	Kind  string
	Mode  uint32 // permission + setuid/setgid/sticky (os.FileMode bits)
	Size  int64
	Sum   string
	Link  string
	Inode string // hard-link class
	Mtime int64
	UID   uint32
	GID   uint32
	Nlink uint64
}

// vfSnapshot walks root with Lstat and returns a canonical description. Link
// texts have the root prefix replaced by "$ROOT" so two twin trees compare.
func vfSnapshot(root string) []vfTreeEntry {
	var out []vfTreeEntry
	inodes := map[string]string{}
	filepath.Walk(root, func(p string, fi os.FileInfo, err error) error {
		if err != nil {
			return nil
		}
		rel, _ := filepath.Rel(root, p)
		e := vfTreeEntry{Path: rel, Mode: uint32(fi.Mode() & (os.ModePerm | os.ModeSetuid | os.ModeSetgid | os.ModeSticky)), Mtime: fi.ModTime().Unix()}
		if st, ok := fi.Sys().(*syscall.Stat_t); ok {
			e.UID, e.GID = st.Uid, st.Gid
			e.Nlink = uint64(st.Nlink)
			key := fmt.Sprintf("%d:%d", st.Dev, st.Ino)
			if fi.Mode().IsRegular() && st.Nlink > 1 {
				if first, ok := inodes[key]; ok {
					e.Inode = first
				} else {
					inodes[key] = rel
					e.Inode = rel
				}
			}
		}
		switch {
		case fi.Mode()&os.ModeSymlink != 0:
			e.Kind = "symlink"
			t, _ := os.Readlink(p)
			e.Link = strings.ReplaceAll(t, root, "$ROOT")
			e.Mode = 0
			e.Mtime = 0
		case fi.IsDir():
			e.Kind = "dir"
			e.Nlink = 0
		case fi.Mode().IsRegular():
			e.Kind = "file"
			e.Size = fi.Size()
			if b, err := os.ReadFile(p); err == nil {
				h := sha256.Sum256(b)
				e.Sum = hex.EncodeToString(h[:8])
			}
		case fi.Mode()&os.ModeNamedPipe != 0:
			e.Kind = "fifo"
		case fi.Mode()&os.ModeSocket != 0:
			e.Kind = "socket"
		case fi.Mode()&os.ModeCharDevice != 0:
			e.Kind = "chardev"
		case fi.Mode()&os.ModeDevice != 0:
			e.Kind = "blockdev"
		default:
			e.Kind = "other"
		}
		out = append(out, e)
		return nil
	})
	sort.Slice(out, func(i, j int) bool { return out[i].Path < out[j].Path })
	return out
}

// vfSnapshotDiff describes the first difference (ignoring what `ignore` clears).
func vfSnapshotDiff(a, b []vfTreeEntry, withMtime bool) string {
	norm := func(e vfTreeEntry) vfTreeEntry {
		if !withMtime {
			e.Mtime = 0
		}
		return e
	}
	i, j := 0, 0
	for i < len(a) || j < len(b) {
		switch {
		case i >= len(a):
			return fmt.Sprintf("only in second: %+v", b[j])
		case j >= len(b):
			return fmt.Sprintf("only in first: %+v", a[i])
		case a[i].Path < b[j].Path:
			return fmt.Sprintf("only in first: %+v", a[i])
		case a[i].Path > b[j].Path:
			return fmt.Sprintf("only in second: %+v", b[j])
		}
		if norm(a[i]) != norm(b[j]) {
			return fmt.Sprintf("differs: %+v vs %+v", a[i], b[j])
		}
		i++
		j++
	}
	return ""
}
