package sftp_test

// C01 — transferred bytes are exactly the file's bytes.

import (
	"bytes"
	"fmt"
	"io"
	"os"
	"testing"

	sftp "github.com/pkg/sftp"
	"pgregory.net/rapid"
)

type vfC01Op struct {
	M       string // Write | WriteAt | ReadFrom | ReadFromWithConcurrency | Read | ReadAt | WriteTo | Seek
	N       int    `json:",omitempty"`
	Off     int64  `json:",omitempty"`
	Src     string `json:",omitempty"`
	Hint    int    `json:",omitempty"`
	SrcStep int    `json:",omitempty"`
	Conc    int    `json:",omitempty"`
	TailEOF bool   `json:",omitempty"` // the source returns its last bytes together with io.EOF
}

type vfCaseC01 struct {
	Backend string // os | rs-split | rs-rw | peer
	Alloc   bool
	MaxTx   uint32
	Opts    vfOpts
	L0      int
	Ops     []vfC01Op
	Window  int   `json:",omitempty"`
	Order   []int `json:",omitempty"`
	// peer backend: what STAT/FSTAT report differs from what the handle holds by this much (the file was
	// replaced, or grew or shrank, between the stat and the transfer): the size is a hint for WriteTo, never a
	// bound (seed C01-e)
	StatSkew int64 `json:",omitempty"`
}

const vfC01Seed = 61

func vfGenC01Len(t *rapid.T, label string, p, c, cap int) int {
	var n int
	if rapid.Bool().Draw(t, label+"boundary") {
		k := rapid.SampledFrom([]int{1, 2, c, c + 1, 2*c + 1}).Draw(t, label+"k")
		n = k*p + rapid.SampledFrom([]int{-1, 0, 1}).Draw(t, label+"d")
	} else {
		switch rapid.IntRange(0, 3).Draw(t, label+"small") {
		case 0:
			n = rapid.SampledFrom([]int{0, 1, 2}).Draw(t, label+"tiny")
		default:
			n = rapid.IntRange(0, 2*(c+2)*p).Draw(t, label+"uniform")
		}
	}
	if n < 0 {
		n = 0
	}
	if n > cap {
		n = cap - rapid.IntRange(0, 3).Draw(t, label+"capadj")
	}
	return n
}

// Both sides refuse frames longer than 256 KiB (maxMsgLength), whatever the options say: the largest
// client packet size whose WRITE requests and DATA replies still fit is a little below that.
const vfC01MaxPacket = 262000

func vfGenC01(t *rapid.T) vfCaseC01 {
	c := vfCaseC01{Backend: rapid.SampledFrom([]string{"os", "rs-split", "rs-rw", "peer"}).Draw(t, "backend"), Alloc: rapid.Bool().Draw(t, "alloc")}
	c.MaxTx = rapid.SampledFrom([]uint32{32768, 32768, 32768, 40000, 65536, 65536, 262144, 1 << 20}).Draw(t, "maxtx")
	p := rapid.SampledFrom([]int{1, 2, 3, 7, 16, 100, 1000, 4096, 4096, 32768, int(c.MaxTx)}).Draw(t, "maxpacket")
	if p > vfC01MaxPacket {
		p = vfC01MaxPacket
	}
	c.Opts = vfOpts{MaxPacket: p, Conc: rapid.SampledFrom([]int{1, 2, 3, 8, 64}).Draw(t, "conc"), CRead: rapid.Bool().Draw(t, "cread"), CWrite: rapid.Bool().Draw(t, "cwrite"), Fstat: rapid.Bool().Draw(t, "fstat")}
	cap := 192 * 1024
	if vfThorough() {
		cap = 3 << 20
	}
	if p <= 7 {
		cap = 4096 // a one-byte packet per request: keep transfers affordable
	}
	if cap < 2*p+2 {
		cap = 2*p + 2
	}
	cc := c.Opts.Conc
	c.L0 = vfGenC01Len(t, "l0", p, cc, cap)
	n := rapid.IntRange(1, 8).Draw(t, "nops")
	for i := 0; i < n; i++ {
		op := vfC01Op{M: rapid.SampledFrom([]string{"Write", "WriteAt", "ReadFrom", "ReadFromWithConcurrency", "Read", "ReadAt", "ReadAt", "WriteTo", "Seek"}).Draw(t, "m")}
		switch op.M {
		case "Write", "Read":
			op.N = vfGenC01Len(t, "n", p, cc, cap)
		case "WriteAt", "ReadAt":
			op.N = vfGenC01Len(t, "n", p, cc, cap)
			op.Off = int64(rapid.SampledFrom([]int{0, 1, p - 1, p, p + 1, c.L0, c.L0 / 2}).Draw(t, "off"))
		case "ReadFrom", "ReadFromWithConcurrency":
			op.N = vfGenC01Len(t, "n", p, cc, cap)
			op.Src = rapid.SampledFrom([]string{"len", "size", "stat", "limited", "opaque"}).Draw(t, "src")
			op.Hint = rapid.SampledFrom([]int{0, 0, 0, -5, 7, 3 * p, -1000000}).Draw(t, "hint")
			op.SrcStep = rapid.SampledFrom([]int{0, 0, 1, 7, p, p + 1}).Draw(t, "srcstep")
			op.Conc = rapid.SampledFrom([]int{0, 1, 2, 3, 100}).Draw(t, "rfconc")
			op.TailEOF = rapid.Bool().Draw(t, "taileof")
			if op.SrcStep == 1 && op.N > 20000 {
				op.SrcStep = 7
			}
		case "Seek":
			op.Off = int64(rapid.SampledFrom([]int{0, 1, p, c.L0, c.L0 + p + 1, c.L0 / 2}).Draw(t, "seek"))
		}
		c.Ops = append(c.Ops, op)
	}
	if c.Backend == "peer" {
		c.Window = rapid.SampledFrom([]int{1, 2, 4, 16, 64}).Draw(t, "window")
		c.Order = rapid.SliceOfN(rapid.IntRange(0, 63), 1, 16).Draw(t, "order")
		if rapid.IntRange(0, 2).Draw(t, "skewed") == 0 {
			c.StatSkew = int64(rapid.SampledFrom([]int{-1, 1, -p, p, -p - 1, -c.L0 / 2, -c.L0, c.L0, 5 * p}).Draw(t, "statskew"))
		}
	}
	return c
}

// vfTailEOFReader hands out its last chunk together with io.EOF.
type vfTailEOFReader struct{ r io.Reader }

func (t vfTailEOFReader) Read(p []byte) (int, error) {
	n, err := t.r.Read(p)
	if err == nil {
		if b, ok := t.r.(*vfSrc); ok && b.pos >= len(b.data) {
			return n, io.EOF
		}
	}
	return n, err
}

func vfRunC01(ctx *vfCtx, c vfCaseC01) {
	baseline := vfPkgGoroutineIDs()
	p := c.Opts.MaxPacket
	if p < 1 || uint32(p) > c.MaxTx || c.L0 < 0 || c.L0 > 8<<20 {
		ctx.Failf("harness/bad-case", "%+v", c)
	}
	ctx.Class("backend=" + c.Backend)
	initial := vfPRFBytes(vfC01Seed, 0, c.L0)
	var cl *sftp.Client
	var content func() []byte
	var finish func()
	name := "t"
	switch c.Backend {
	case "os", "rs-split", "rs-rw":
		var srv *vfSrv
		var err error
		if c.Backend == "os" {
			root := vfTempDir("vfc01")
			os.WriteFile(root+"/t", initial, 0o644)
			srv, err = vfStartSrv(vfSrvCfg{Kind: "os", Alloc: c.Alloc, MaxTx: c.MaxTx}, root, nil)
			content = func() []byte { b, _ := os.ReadFile(root + "/t"); return b }
			defer os.RemoveAll(root)
		} else {
			h := newVfH()
			h.addFile("/t", initial)
			srv, err = vfStartSrv(vfSrvCfg{Kind: "rs", Alloc: c.Alloc, MaxTx: c.MaxTx, HOpts: vfHOpts{OpenFile: c.Backend == "rs-rw"}}, "", h)
			content = func() []byte {
				f := h.lookup("/t")
				f.mu.Lock()
				defer f.mu.Unlock()
				return append([]byte{}, f.data...)
			}
			name = "/t"
		}
		if err != nil {
			ctx.Failf("harness/server", "%v", err)
		}
		cl, err = sftp.NewClientPipe(srv.link.Client, srv.link.Client, c.Opts.clientOptions()...)
		if err != nil {
			ctx.Failf("harness/client", "%v", err)
		}
		finish = func() {
			d, _ := vfCall(func() (string, error) { return "", cl.Close() })
			if !vfAwait(ctx, d, "client close") {
				ctx.Failf("C01/close-hangs", "client Close hangs")
			}
			if !vfAwait(ctx, srv.done, "Serve") {
				ctx.Failf("C01/serve-hangs", "Serve never returns")
			}
		}
	case "peer":
		s, err := vfStartSession(c.Opts, func(pp *vfPeer, l *vfLink) {
			pp.addFile("/t", initial)
			pp.window, pp.order = c.Window, c.Order
			pp.sizeSkew = c.StatSkew
		})
		if err != nil {
			ctx.Failf("harness/handshake", "%v", err)
		}
		cl = s.c
		name = "/t"
		content = func() []byte {
			s.peer.mu.Lock()
			defer s.peer.mu.Unlock()
			return append([]byte{}, s.peer.fs["/t"].Data...)
		}
		finish = func() { vfEndSession(ctx, "C01", s, baseline) }
	default:
		ctx.Failf("harness/backend", "%q", c.Backend)
	}
	model := append([]byte{}, initial...)
	multi, beyond := false, false
	done, res := vfCall(func() (string, error) {
		var fw, fr *sftp.File
		var err error
		if c.Backend == "rs-split" {
			if fw, err = cl.OpenFile(name, os.O_WRONLY); err != nil {
				return "", err
			}
			if fr, err = cl.OpenFile(name, os.O_RDONLY); err != nil {
				return "", err
			}
		} else {
			if fw, err = cl.OpenFile(name, os.O_RDWR); err != nil {
				return "", err
			}
			fr = fw
		}
		offs := map[*sftp.File]int64{fw: 0, fr: 0}
		for i, op := range c.Ops {
			desc := fmt.Sprintf("op %d %+v on %s (maxpacket %d, conc %d, cread %v, cwrite %v, fstat %v, maxtx %d, alloc %v; file has %d bytes)", i, op, c.Backend, p, c.Opts.Conc, c.Opts.CRead, c.Opts.CWrite, c.Opts.Fstat, c.MaxTx, c.Alloc, len(model))
			key := "C01/" + c.Backend + "/" + op.M
			if op.N > p {
				multi = true
			}
			if op.N > p*c.Opts.Conc {
				beyond = true
			}
			data := vfPRFBytes(uint32(200+i), 0, op.N)
			extend := func(off int64) {
				if op.N == 0 {
					return
				}
				for int64(len(model)) < off+int64(op.N) {
					model = append(model, make([]byte, off+int64(op.N)-int64(len(model)))...)
				}
				copy(model[off:], data)
			}
			readCheck := func(b []byte, n int, err error, off int64) {
				k := 0
				if off < int64(len(model)) {
					k = minInt(op.N, len(model)-int(off))
				}
				if n != k {
					ctx.Failf(key+"/count", "%s returned n=%d err=%v, the file holds %d bytes from offset %d", desc, n, err, k, off)
				}
				if k > 0 && !bytes.Equal(b[:n], model[off:off+int64(k)]) {
					ctx.Failf(key+"/bytes", "%s returned bytes that differ from the file at +%d", desc, vfDiffAt(b[:n], model[off:off+int64(k)]))
				}
				if err == nil && n != op.N {
					ctx.Failf(key+"/short-nil", "%s returned a short count with a nil error", desc)
				}
				if err != nil && err != io.EOF {
					ctx.Failf(key+"/error", "%s failed: %v", desc, err)
				}
				if k < op.N && err != io.EOF {
					ctx.Failf(key+"/eof-missing", "%s ran into the end of the file but returned err=%v", desc, err)
				}
			}
			switch op.M {
			case "Write":
				n, err := fw.Write(data)
				if err != nil || n != op.N {
					ctx.Failf(key+"/result", "%s returned n=%d err=%v", desc, n, err)
				}
				extend(offs[fw])
				offs[fw] += int64(op.N)
			case "WriteAt":
				n, err := fw.WriteAt(data, op.Off)
				if err != nil || n != op.N {
					ctx.Failf(key+"/result", "%s returned n=%d err=%v", desc, n, err)
				}
				extend(op.Off)
			case "ReadFrom", "ReadFromWithConcurrency":
				rd, base := vfMakeSrc(op.Src, data, op.SrcStep, op.Hint)
				if op.TailEOF && op.Src == "opaque" {
					rd = vfTailEOFReader{base}
				}
				var n int64
				var err error
				if op.M == "ReadFrom" {
					n, err = fw.ReadFrom(rd)
				} else {
					n, err = fw.ReadFromWithConcurrency(rd, op.Conc)
				}
				if err != nil || n != int64(op.N) {
					ctx.Failf(key+"/result", "%s returned n=%d err=%v", desc, n, err)
				}
				extend(offs[fw])
				offs[fw] += int64(op.N)
				ctx.Class("src=" + op.Src)
			case "Read":
				b := make([]byte, op.N)
				n, err := fr.Read(b)
				if op.N == 0 {
					if n != 0 {
						ctx.Failf(key+"/count", "%s returned n=%d", desc, n)
					}
					break
				}
				readCheck(b, n, err, offs[fr])
				offs[fr] += int64(n)
			case "ReadAt":
				b := make([]byte, op.N)
				n, err := fr.ReadAt(b, op.Off)
				if op.N == 0 {
					if n != 0 {
						ctx.Failf(key+"/count", "%s returned n=%d", desc, n)
					}
					break
				}
				readCheck(b, n, err, op.Off)
			case "WriteTo":
				var sink bytes.Buffer
				n, err := fr.WriteTo(&sink)
				var want []byte
				if offs[fr] < int64(len(model)) {
					want = model[offs[fr]:]
				}
				if err != nil || n != int64(len(want)) || !bytes.Equal(sink.Bytes(), want) {
					ctx.Failf(key+"/result", "%s returned n=%d err=%v and delivered %d bytes (first difference at %d), the file holds %d bytes from the offset", desc, n, err, sink.Len(), vfDiffAt(sink.Bytes(), want), len(want))
				}
				offs[fr] += int64(len(want))
				if len(want) > p {
					multi = true
				}
				if len(want) > p*c.Opts.Conc {
					beyond = true
				}
			case "Seek":
				f := fr
				if i%2 == 0 {
					f = fw
				}
				if _, err := f.Seek(op.Off, io.SeekStart); err != nil {
					ctx.Failf(key+"/result", "%s failed: %v", desc, err)
				}
				offs[f] = op.Off
			}
			if got := content(); !bytes.Equal(got, model) {
				ctx.Failf("C01/"+c.Backend+"/content-after/"+op.M, "after %s the served file has %d bytes, the model %d; first difference at %d", desc, len(got), len(model), vfDiffAt(got, model))
			}
		}
		fw.Close()
		if fr != fw {
			fr.Close()
		}
		return "", nil
	})
	if !vfAwait(ctx, done, "transfer program") {
		ctx.Failf("C01/hang/"+c.Backend, "the program never finishes\n%s", vfDumpRelevant())
	}
	if res.Panic != nil {
		if f, ok := res.Panic.(*vfFailure); ok {
			panic(f)
		}
		ctx.Failf("panic/"+vfPanicSite([]byte(res.Stack)), "%v\n%s", res.Panic, vfTrimStack([]byte(res.Stack)))
	}
	if res.Err != nil {
		ctx.Failf("harness/open", "%v", res.Err)
	}
	finish()
	if c.Backend != "peer" {
		vfCheckNoLeak(ctx, "C01/leak", baseline)
	}
	if multi {
		ctx.NonTrivial()
		ctx.Class("spans>=2-packets")
	}
	if beyond {
		ctx.Class(">p*c")
	}
	ctx.Class(fmt.Sprintf("cread=%v,cwrite=%v", c.Opts.CRead, c.Opts.CWrite))
}

func TestVerifC01(t *testing.T) {
	vfDriveSub(t, "", vfProp[vfCaseC01]{ID: "C01", Gen: vfGenC01, Run: vfRunC01})
}
