package sftp_test

// C13 — on partial failure the count names a prefix that really moved.

import (
	"bytes"
	"errors"
	"fmt"
	"io"
	"os"
	"strings"
	"testing"
	"time"

	sftp "github.com/pkg/sftp"
	"pgregory.net/rapid"
)

type vfFail struct {
	Chunk int
	Code  uint32
}

type vfCaseC13 struct {
	API     string // ReadAt | Read | WriteTo | WriteAt | Write | ReadFrom | ReadFromWithConcurrency
	Opts    vfOpts
	Start   int
	Len     int
	FileLen int
	// WriteTo: the chunk right below the lowest failing one comes back short by this many bytes - the
	// "(partial read, next error)" pattern the package documents for regular files (seed C13-e)
	ShortBy int `json:",omitempty"`
	Fails   []vfFail
	Window  int
	Order   []int
	Src     string `json:",omitempty"` // ReadFrom source kind: len | size | stat | limited | opaque
	Hint    int    `json:",omitempty"` // size hint delta for len/size/stat sources
	SrcStep int    `json:",omitempty"` // bytes per source Read (0 = all)
	Conc    int    `json:",omitempty"`
}

var vfC13APIs = []string{"ReadAt", "Read", "WriteTo", "WriteAt", "Write", "ReadFrom", "ReadFromWithConcurrency"}
var vfC13Codes = []uint32{vfFxFailure, vfFxPermissionDenied, vfFxNoSuchFile, vfFxBadMessage}

func vfGenC13Transfer(t *rapid.T) vfCaseC13 {
	c := vfCaseC13{API: rapid.SampledFrom(vfC13APIs).Draw(t, "api"), Opts: vfGenSmallOpts(t)}
	mp := c.Opts.MaxPacket
	nch := rapid.IntRange(1, 12).Draw(t, "chunks")
	c.Len = nch*mp + rapid.SampledFrom([]int{-1, 0, 0, 1, mp / 2}).Draw(t, "lenadj")
	if c.Len < 1 {
		c.Len = 1
	}
	c.Start = rapid.SampledFrom([]int{0, 0, 1, mp - 1, mp, 3*mp + 5}).Draw(t, "start")
	switch c.API {
	case "ReadAt", "Read":
		// inside the file, or running into its end
		c.FileLen = c.Start + c.Len + rapid.SampledFrom([]int{0, 0, 10, -1, -mp, -mp - 3, 5 * mp}).Draw(t, "tail")
		if c.FileLen < c.Start+1 {
			c.FileLen = c.Start + 1
		}
	case "WriteTo":
		c.FileLen = c.Start + c.Len
	default:
		c.FileLen = rapid.SampledFrom([]int{0, c.Start, c.Start + c.Len + 9}).Draw(t, "existing")
	}
	c.Window = rapid.SampledFrom([]int{1, 2, 4, 8, 16}).Draw(t, "window")
	c.Order = rapid.SliceOfN(rapid.IntRange(0, 15), 1, 16).Draw(t, "order")
	if strings.HasPrefix(c.API, "ReadFrom") {
		c.Src = rapid.SampledFrom([]string{"len", "size", "stat", "limited", "opaque"}).Draw(t, "src")
		c.Hint = rapid.SampledFrom([]int{0, 0, 0, -5, 7, 3 * mp, -100000}).Draw(t, "hint")
		c.SrcStep = rapid.SampledFrom([]int{0, 0, 1, 7, mp, mp + 1}).Draw(t, "srcstep")
		c.Conc = rapid.SampledFrom([]int{0, 1, 2, 3, 100}).Draw(t, "conc")
	}
	return c
}

func vfC13Chunks(c *vfCaseC13) int {
	n := c.Len
	if c.API == "ReadAt" || c.API == "Read" {
		// requests beyond the end of the file are still chunks of the transfer
	}
	return (n + c.Opts.MaxPacket - 1) / c.Opts.MaxPacket
}

func vfGenC13(t *rapid.T) vfCaseC13 {
	c := vfGenC13Transfer(t)
	nch := vfC13Chunks(&c)
	nf := rapid.SampledFrom([]int{1, 1, 1, 2, 3}).Draw(t, "nfails")
	seen := map[int]bool{}
	first := uint32(0)
	for i := 0; i < nf; i++ {
		k := rapid.IntRange(0, nch-1).Draw(t, "failchunk")
		if seen[k] {
			continue
		}
		seen[k] = true
		codes := vfC13Codes
		if c.API != "ReadAt" && c.API != "Read" && c.API != "WriteTo" {
			// for a WRITE the end-of-file status is a refusal like any other (for a READ it is an honest answer)
			codes = append(append([]uint32{}, codes...), vfFxEOF)
		}
		code := rapid.SampledFrom(codes).Draw(t, "code")
		c.Fails = append(c.Fails, vfFail{k, code})
		_ = first
	}
	if c.API == "WriteTo" && c.Opts.MaxPacket > 1 && rapid.IntRange(0, 2).Draw(t, "short") == 0 {
		c.ShortBy = rapid.IntRange(1, c.Opts.MaxPacket-1).Draw(t, "shortby")
	}
	return c
}

// ---- instrumented ReadFrom sources ---------------------------------------------

type vfSrc struct {
	data  []byte
	pos   int
	step  int
	given int
	hint  int
}

func (s *vfSrc) Read(p []byte) (int, error) {
	if s.pos >= len(s.data) {
		return 0, io.EOF
	}
	n := len(p)
	if s.step > 0 && n > s.step {
		n = s.step
	}
	n = copy(p[:n], s.data[s.pos:])
	s.pos += n
	s.given += n
	return n, nil
}

type vfSrcLen struct{ *vfSrc }

func (s vfSrcLen) Len() int { return len(s.data) - s.pos + s.hint }

type vfSrcSize struct{ *vfSrc }

func (s vfSrcSize) Size() int64 { return int64(len(s.data) + s.hint) }

type vfSrcStat struct{ *vfSrc }

type vfSrcFI struct{ n int64 }

func (f vfSrcFI) Name() string       { return "src" }
func (f vfSrcFI) Size() int64        { return f.n }
func (f vfSrcFI) Mode() os.FileMode  { return 0o644 }
func (f vfSrcFI) ModTime() time.Time { return time.Unix(0, 0) }
func (f vfSrcFI) IsDir() bool        { return false }
func (f vfSrcFI) Sys() any           { return nil }

func (s vfSrcStat) Stat() (os.FileInfo, error) { return vfSrcFI{int64(len(s.data) + s.hint)}, nil }

func vfMakeSrc(kind string, data []byte, step, hint int) (io.Reader, *vfSrc) {
	base := &vfSrc{data: data, step: step, hint: hint}
	switch kind {
	case "len":
		return vfSrcLen{base}, base
	case "size":
		return vfSrcSize{base}, base
	case "stat":
		return vfSrcStat{base}, base
	case "limited":
		n := int64(len(data))
		if hint > 0 {
			n += int64(hint)
		}
		return &io.LimitedReader{R: base, N: n}, base
	}
	return struct{ io.Reader }{base}, base
}

func vfErrCode(err error) int {
	var se *sftp.StatusError
	switch {
	case err == nil:
		return -2
	case err == io.EOF:
		return vfFxEOF
	case errors.Is(err, os.ErrNotExist):
		return vfFxNoSuchFile
	case errors.Is(err, os.ErrPermission):
		return vfFxPermissionDenied
	case errors.As(err, &se):
		return int(se.Code)
	}
	return -1
}

const vfC13FileSeed = 41
const vfC13SrcSeed = 43

func vfRunC13(ctx *vfCtx, c vfCaseC13) {
	baseline := vfPkgGoroutineIDs()
	mp := c.Opts.MaxPacket
	if mp < 1 || c.Len < 1 || c.FileLen < 0 || c.FileLen > 1<<22 || c.Len > 1<<22 {
		ctx.Failf("harness/bad-case", "%+v", c)
	}
	ctx.Class("api=" + c.API)
	failAt := map[uint64]uint32{}
	lowest := -1
	var lowCode uint32
	for _, f := range c.Fails {
		off := c.Start + f.Chunk*mp
		failAt[uint64(off)] = f.Code
		if lowest < 0 || off < lowest {
			lowest, lowCode = off, f.Code
		}
	}
	s, err := vfStartSession(c.Opts, func(p *vfPeer, l *vfLink) {
		p.addFile("/t", vfPRFBytes(vfC13FileSeed, 0, c.FileLen))
		p.failAt = failAt
		p.window = c.Window
		p.order = c.Order
		if c.ShortBy > 0 && lowest >= c.Start+mp && c.API == "WriteTo" {
			p.shortRead = map[uint64]int{uint64(lowest - mp): mp - c.ShortBy}
		}
	})
	if err != nil {
		ctx.Failf("harness/handshake", "%v", err)
	}
	model := vfPRFBytes(vfC13FileSeed, 0, c.FileLen)
	src := vfPRFBytes(vfC13SrcSeed, 0, c.Len)

	var n int64
	var opErr error
	var got []byte // bytes delivered to the caller (reads)
	var base *vfSrc
	var offAfter int64 = -1
	d, r := vfCall(func() (string, error) {
		f, err := s.c.OpenFile("/t", os.O_RDWR)
		if err != nil {
			return "", fmt.Errorf("open: %w", err)
		}
		defer f.Close()
		switch c.API {
		case "ReadAt":
			b := make([]byte, c.Len)
			k, e := f.ReadAt(b, int64(c.Start))
			n, opErr, got = int64(k), e, b[:k]
		case "Read":
			if _, e := f.Seek(int64(c.Start), io.SeekStart); e != nil {
				return "", e
			}
			b := make([]byte, c.Len)
			k, e := f.Read(b)
			n, opErr, got = int64(k), e, b[:k]
		case "WriteTo":
			if _, e := f.Seek(int64(c.Start), io.SeekStart); e != nil {
				return "", e
			}
			var sink bytes.Buffer
			k, e := f.WriteTo(&sink)
			n, opErr, got = k, e, sink.Bytes()
		case "WriteAt":
			k, e := f.WriteAt(src, int64(c.Start))
			n, opErr = int64(k), e
		case "Write":
			if _, e := f.Seek(int64(c.Start), io.SeekStart); e != nil {
				return "", e
			}
			k, e := f.Write(src)
			n, opErr = int64(k), e
		case "ReadFrom", "ReadFromWithConcurrency":
			if _, e := f.Seek(int64(c.Start), io.SeekStart); e != nil {
				return "", e
			}
			var rd io.Reader
			rd, base = vfMakeSrc(c.Src, src, c.SrcStep, c.Hint)
			if c.API == "ReadFrom" {
				n, opErr = f.ReadFrom(rd)
			} else {
				n, opErr = f.ReadFromWithConcurrency(rd, c.Conc)
			}
			offAfter, _ = f.Seek(0, io.SeekCurrent)
		default:
			return "", fmt.Errorf("unknown api %q", c.API)
		}
		return "", nil
	})
	if !vfAwait(ctx, d, c.API) {
		ctx.Failf("C13/hang/"+c.API, "%s never returns\n%s", c.API, vfDumpRelevant())
	}
	if r.Panic != nil {
		ctx.Failf("panic/"+vfPanicSite([]byte(r.Stack)), "%s panicked: %v\n%s", c.API, r.Panic, vfTrimStack([]byte(r.Stack)))
	}
	if r.Err != nil {
		ctx.Failf("harness/setup", "%v", r.Err)
	}
	s.peer.mu.Lock()
	stored := append([]byte{}, s.peer.fs["/t"].Data...)
	s.peer.mu.Unlock()

	desc := fmt.Sprintf("%s start=%d len=%d filelen=%d maxpacket=%d fails=%v (lowest failing offset %d) -> n=%d err=%v", c.API, c.Start, c.Len, c.FileLen, mp, c.Fails, lowest, n, opErr)
	key := "C13/" + c.API
	isRead := c.API == "ReadAt" || c.API == "Read" || c.API == "WriteTo"
	want := int64(c.Len)
	if c.API == "WriteTo" {
		want = int64(c.FileLen - c.Start)
	}
	if isRead {
		// true end of file inside the request?
		eofAt := -1
		if c.Start+c.Len > c.FileLen || c.API == "WriteTo" {
			eofAt = c.FileLen
		}
		// delivered bytes must be the file's bytes, contiguous from start
		if int64(len(got)) < n && c.API != "WriteTo" {
			ctx.Failf(key+"/count", "%s: count exceeds the bytes delivered", desc)
		}
		if c.Start+int(n) > len(model) || !bytes.Equal(got[:n], model[c.Start:c.Start+int(n)]) {
			ctx.Failf(key+"/prefix-not-intact", "%s: the first n bytes are not the file's bytes (first difference at %d)", desc, vfDiffAt(got[:min64(n, int64(len(got)))], model[c.Start:minInt(len(model), c.Start+int(n))]))
		}
		if c.API == "WriteTo" && int64(len(got)) != n {
			ctx.Failf(key+"/count", "%s: returned %d but the writer received %d bytes", desc, n, len(got))
		}
		failFirst := lowest >= 0 && (eofAt < 0 || lowest <= eofAt) && (c.API != "WriteTo" || lowest < c.FileLen)
		switch {
		case failFirst:
			if opErr == nil || opErr == io.EOF && c.API != "WriteTo" {
				if opErr == nil {
					ctx.Failf(key+"/nil-error", "%s: a chunk failed below the end of the request but the error is nil", desc)
				}
				ctx.Failf(key+"/eof-not-at-end", "%s: io.EOF although the file does not end at the failing offset", desc)
			}
			if vfErrCode(opErr) != int(lowCode) {
				ctx.Failf(key+"/wrong-error", "%s: want the error of the lowest failing offset (code %d), got code %d", desc, lowCode, vfErrCode(opErr))
			}
			if (lowCode == vfFxFailure || lowCode == vfFxBadMessage) && !strings.Contains(opErr.Error(), fmt.Sprintf("offset %d\"", lowest)) {
				ctx.Failf(key+"/wrong-error", "%s: the error does not belong to the lowest failing offset %d", desc, lowest)
			}
			if n > int64(lowest-c.Start) {
				ctx.Failf(key+"/count-beyond-failure", "%s: count reaches beyond the lowest failing offset", desc)
			}
		case eofAt >= 0 && c.API != "WriteTo":
			if opErr != io.EOF {
				ctx.Failf(key+"/eof-missing", "%s: the file ends inside the request, want io.EOF", desc)
			}
			if c.Start+int(n) != c.FileLen {
				ctx.Failf(key+"/eof-not-at-end", "%s: io.EOF with n=%d but the file ends %d bytes after start", desc, n, c.FileLen-c.Start)
			}
		default:
			if opErr != nil {
				ctx.Failf(key+"/spurious-error", "%s: nothing failed inside the request", desc)
			}
			if n != want {
				ctx.Failf(key+"/short-nil", "%s: nil error with a short count (want %d)", desc, want)
			}
		}
	} else {
		// writes: the peer must hold the source bytes on [start, start+n)
		intact := func(upto int) int {
			for i := 0; i < upto; i++ {
				if c.Start+i >= len(stored) || stored[c.Start+i] != src[i] {
					return i
				}
			}
			return -1
		}
		isRF := strings.HasPrefix(c.API, "ReadFrom")
		if lowest >= 0 && lowest < c.Start+c.Len {
			if opErr == nil {
				ctx.Failf(key+"/nil-error", "%s: a chunk failed but the error is nil", desc)
			}
			if vfErrCode(opErr) != int(lowCode) {
				ctx.Failf(key+"/wrong-error", "%s: want the error of the lowest failing offset (code %d), got code %d", desc, lowCode, vfErrCode(opErr))
			}
			if (lowCode == vfFxFailure || lowCode == vfFxBadMessage) && !strings.Contains(opErr.Error(), fmt.Sprintf("offset %d\"", lowest)) {
				ctx.Failf(key+"/wrong-error", "%s: the error does not belong to the lowest failing offset %d", desc, lowest)
			}
			if !isRF {
				if n > int64(lowest-c.Start) {
					ctx.Failf(key+"/count-beyond-failure", "%s: count reaches beyond the lowest failing offset", desc)
				}
				if bad := intact(int(n)); bad >= 0 {
					ctx.Failf(key+"/prefix-not-intact", "%s: byte %d of the claimed prefix is not stored at the peer", desc, bad)
				}
			} else {
				if offAfter != int64(lowest) {
					ctx.Failf(key+"/offset", "%s: File offset is %d afterwards, the intact prefix ends at %d", desc, offAfter, lowest)
				}
				if bad := intact(lowest - c.Start); bad >= 0 {
					ctx.Failf(key+"/prefix-not-intact", "%s: byte %d below the File offset is not stored at the peer", desc, bad)
				}
			}
		} else {
			if opErr != nil {
				ctx.Failf(key+"/spurious-error", "%s: nothing failed inside the request", desc)
			}
			if n != want {
				ctx.Failf(key+"/short-nil", "%s: nil error with a short count (want %d)", desc, want)
			}
			if bad := intact(c.Len); bad >= 0 {
				ctx.Failf(key+"/prefix-not-intact", "%s: byte %d was not stored at the peer", desc, bad)
			}
			if isRF && offAfter != int64(c.Start+c.Len) {
				ctx.Failf(key+"/offset", "%s: File offset is %d afterwards, want %d", desc, offAfter, c.Start+c.Len)
			}
		}
		if isRF && base != nil && n != int64(base.given) {
			ctx.Failf(key+"/count-vs-source", "%s: returned %d but %d bytes were consumed from the source", desc, n, base.given)
		}
	}
	if lowest >= 0 {
		if lowest > c.Start {
			ctx.Class("fail-index>=1")
			ctx.NonTrivial()
		} else {
			ctx.Class("fail-index=0")
		}
		if len(c.Fails) >= 2 && c.Window > 1 {
			ctx.Class("multi-fail-permuted")
			ctx.NonTrivial()
		}
	} else {
		ctx.Class("no-fail")
	}
	if c.Len > mp {
		ctx.Class("multi-chunk")
	}
	vfEndSession(ctx, "C13", s, baseline)
}

func min64(a, b int64) int64 {
	if a < b {
		return a
	}
	return b
}
func minInt(a, b int) int {
	if a < b {
		return a
	}
	return b
}

// vfRunC13Enum: for one generated transfer, every single failing chunk index
// (x two status codes), plus the fault-free run.
func vfRunC13Enum(ctx *vfCtx, c vfCaseC13) {
	c.Fails = nil
	nch := vfC13Chunks(&c)
	runs := 0
	one := func(cc vfCaseC13) {
		vfJournal("C13", "gen", vfMustJSON(cc))
		sub := &vfCtx{}
		if f := vfProtect(func() { vfRunC13(sub, cc) }); f != nil {
			f.AltSub, f.AltCase = "gen", cc
			panic(f)
		}
		runs++
	}
	one(c)
	for k := 0; k < nch; k++ {
		for _, code := range []uint32{vfFxFailure, vfFxPermissionDenied} {
			cc := c
			cc.Fails = []vfFail{{k, code}}
			one(cc)
		}
	}
	vfAddExtra("enumerated_fault_plans", runs)
	ctx.Class("api=" + c.API)
	if nch > 1 {
		ctx.NonTrivial()
	}
}

func TestVerifC13(t *testing.T) {
	t.Run("gen", func(t *testing.T) { vfDriveSub(t, "gen", vfProp[vfCaseC13]{ID: "C13", Gen: vfGenC13, Run: vfRunC13}) })
	t.Run("enum", func(t *testing.T) {
		defer vfScaleChecks(12)()
		vfDriveSub(t, "enum", vfProp[vfCaseC13]{ID: "C13", Gen: vfGenC13Transfer, Run: vfRunC13Enum})
	})
}
