package sftp_test

// C05 — operations through Client and Server behave like package os.

import (
	"errors"
	"fmt"
	"io"
	"os"
	"path"
	"path/filepath"
	"sort"
	"strings"
	"syscall"
	"testing"
	"time"

	sftp "github.com/pkg/sftp"
	"pgregory.net/rapid"
)

type vfC05Op struct {
	Op    string
	P     string // path relative to the root
	P2    string `json:",omitempty"`
	Abs   bool   `json:",omitempty"` // give the path absolute (below the served root) instead of relative to the working directory
	Abs2  bool   `json:",omitempty"`
	Flags int    `json:",omitempty"`
	Mode  uint32 `json:",omitempty"` // os.FileMode bits
	N     int64  `json:",omitempty"`
	Pat   string `json:",omitempty"`
	Deco  int    `json:",omitempty"` // lexical decoration of P: 1 "./P", 2 "P/", 3 "x/../P", 4 "P/.", 5 "P//"
}

type vfCaseC05 struct {
	Alloc bool
	Ops   []vfC05Op
}

var vfC05Names = []string{"a", "b", "c", "d"}

func vfGenC05Path(t *rapid.T, label string) string {
	depth := rapid.SampledFrom([]int{1, 1, 1, 2, 2, 3}).Draw(t, label+"depth")
	var parts []string
	for i := 0; i < depth; i++ {
		parts = append(parts, rapid.SampledFrom(vfC05Names).Draw(t, label+"seg"))
	}
	return strings.Join(parts, "/")
}

// operations whose path argument may be given in a decorated spelling (absolute paths only)
var vfC05DecoOps = map[string]bool{"Mkdir": true, "MkdirAll": true, "Create": true, "OpenFile": true, "RemoveDirectory": true, "ReadLink": true, "Stat": true, "Lstat": true,
	"Chmod": true, "Chtimes": true, "Truncate": true, "ReadDir": true, "Rename": true, "PosixRename": true, "Link": true}

var vfC05OpKinds = []string{"Mknode", "Mkdir", "Mkdir", "MkdirAll", "Create", "Create", "OpenFile", "Remove", "RemoveDirectory", "RemoveAll", "Rename", "PosixRename", "Link", "Symlink", "Symlink",
	"ReadLink", "Stat", "Lstat", "Chmod", "Chtimes", "Chown", "Truncate", "ReadDir", "Glob", "Walk", "RealPath", "StatVFS"}

func vfGenC05(t *rapid.T) vfCaseC05 {
	c := vfCaseC05{Alloc: rapid.Bool().Draw(t, "alloc")}
	n := rapid.IntRange(1, 25).Draw(t, "n")
	for i := 0; i < n; i++ {
		op := vfC05Op{Op: rapid.SampledFrom(vfC05OpKinds).Draw(t, "op")}
		op.P = vfGenC05Path(t, "p")
		op.Abs = rapid.IntRange(0, 2).Draw(t, "abs") == 0
		if op.Abs && vfC05DecoOps[op.Op] && rapid.IntRange(0, 2).Draw(t, "decorate") == 0 {
			// An absolute path reaches the os call of the server verbatim (only relative ones are joined
			// lexically to the working directory), so "P/.", "zz/../P", "./P", "P/" and "P//" must meet the
			// kernel's answer there too - and Client.MkdirAll documents that it handles "foo/." (seed C05-h).
			op.Deco = rapid.IntRange(1, 5).Draw(t, "deco")
		}
		switch op.Op {
		case "Rename", "PosixRename", "Link":
			op.P2 = vfGenC05Path(t, "p2")
			op.Abs2 = rapid.IntRange(0, 2).Draw(t, "abs2") == 0
		case "Symlink":
			// P is the link, P2 the target text: a name of the universe (relative to the link's directory), absolute below the root, or dangling
			op.P2 = rapid.SampledFrom([]string{"a", "b", "c", "a/b", "../a", "nothing", "."}).Draw(t, "target")
			if rapid.IntRange(0, 3).Draw(t, "abstarget") == 0 {
				op.P2 = vfGenC05Path(t, "p2")
				op.Abs2 = true
			}
		case "OpenFile":
			acc := rapid.SampledFrom([]int{os.O_RDONLY, os.O_WRONLY, os.O_RDWR}).Draw(t, "acc")
			extra := rapid.SampledFrom([]int{0, os.O_CREATE, os.O_CREATE | os.O_TRUNC, os.O_CREATE | os.O_EXCL, os.O_TRUNC}).Draw(t, "extra")
			op.Flags = acc | extra
			op.N = int64(rapid.IntRange(0, 9).Draw(t, "wlen"))
		case "Chmod":
			op.Mode = uint32(rapid.SampledFrom([]os.FileMode{0o644, 0o600, 0o755, 0o700, 0o4755, 0o777 | os.ModeSticky, 0o750 | os.ModeSetgid, 0o711 | os.ModeSetuid, 0}).Draw(t, "mode"))
			if op.Mode == 0o4755 {
				op.Mode = uint32(0o755 | os.ModeSetuid)
			}
		case "Chtimes":
			op.N = int64(rapid.SampledFrom([]int{0, 1, 1000000000, 1234567890, 2000000000}).Draw(t, "mtime"))
		case "Chown":
			op.N = int64(rapid.IntRange(0, 3).Draw(t, "uid"))
		case "Truncate":
			op.N = int64(rapid.SampledFrom([]int{0, 1, 5, 100}).Draw(t, "size"))
		case "Glob":
			op.Pat = rapid.SampledFrom([]string{"*", "?", "[ab]", "a/*", "*/*", "a/?", "[a-c]/[bd]", "*/*/*", "a", "z*"}).Draw(t, "pat")
		case "Mknode":
			// not a client operation: a unix socket appears in both trees (the protocol cannot create one), so
			// that the operations around it meet a file kind that is neither file, directory nor link (seed
			// F16). No fifos: opening one blocks in open(2), in the server and in package os alike.
			op.N = 0
		}
		c.Ops = append(c.Ops, op)
	}
	return c
}

func vfErrCategory(err error) string {
	switch {
	case err == nil:
		return "ok"
	case errors.Is(err, os.ErrNotExist):
		return "not-exist"
	case errors.Is(err, os.ErrPermission):
		return "permission"
	}
	return "other"
}

func vfInfoString(fi os.FileInfo, withSize bool) string {
	if fi == nil {
		return "<nil>"
	}
	m := fi.Mode()
	s := fmt.Sprintf("%s %v dir=%v", fi.Name(), m, fi.IsDir())
	if withSize && m.IsRegular() {
		s += fmt.Sprintf(" size=%d", fi.Size())
	}
	// modification times are only comparable when a Chtimes set them (the two
	// trees are built microseconds apart, possibly across a second boundary)
	switch mt := fi.ModTime().Unix(); mt {
	case 0, 1, 1000000000, 1234567890, 2000000000:
		if !m.IsDir() && m&os.ModeSymlink == 0 {
			s += fmt.Sprintf(" mtime=%d", mt)
		}
	}
	return s
}

func vfRunC05(ctx *vfCtx, c vfCaseC05) {
	baseline := vfPkgGoroutineIDs()
	rootS, rootT := vfTempDir("vfc05s"), vfTempDir("vfc05t")
	defer os.RemoveAll(rootS)
	defer os.RemoveAll(rootT)
	srv, err := vfStartSrv(vfSrvCfg{Kind: "os", Alloc: c.Alloc}, rootS, nil)
	if err != nil {
		ctx.Failf("harness/server", "%v", err)
	}
	cl, err := sftp.NewClientPipe(srv.link.Client, srv.link.Client)
	if err != nil {
		ctx.Failf("harness/client", "%v", err)
	}
	norm := func(s, root string) string { return strings.ReplaceAll(s, root, "$ROOT") }
	sp := func(p string, abs bool) string { // path given to the client
		if abs {
			return rootS + "/" + p
		}
		return p
	}
	tp := func(p string) string { return rootT + "/" + p }
	deco := func(p string, d int) string {
		switch d {
		case 1:
			return "./" + p
		case 2:
			return p + "/"
		case 3:
			return "zz/../" + p
		case 4:
			return p + "/."
		case 5:
			return p + "//"
		}
		return p
	}
	interesting := false
	done, res := vfCall(func() (string, error) {
		for i, op := range c.Ops {
			var gotErr, wantErr error
			var got, want string
			ctx.Class("op=" + op.Op)
			if op.Deco != 0 && op.Abs && vfC05DecoOps[op.Op] {
				// the same decorated string goes to sftp (below the served root) and to package os (below the twin root)
				op.P = deco(op.P, op.Deco)
				ctx.Class("decorated-path")
			}
			switch op.Op {
			case "Mknode":
				mode := uint32(syscall.S_IFSOCK | 0o644)
				if op.N == 1 {
					mode = syscall.S_IFIFO | 0o644
				}
				gotErr, wantErr = syscall.Mknod(rootS+"/"+op.P, mode, 0), syscall.Mknod(rootT+"/"+op.P, mode, 0)
			case "Mkdir":
				gotErr, wantErr = cl.Mkdir(sp(op.P, op.Abs)), os.Mkdir(tp(op.P), 0o755)
			case "MkdirAll":
				gotErr, wantErr = cl.MkdirAll(sp(op.P, op.Abs)), os.MkdirAll(tp(op.P), 0o755)
			case "Create":
				f, e := cl.Create(sp(op.P, op.Abs))
				if e == nil {
					e = f.Close()
				}
				g, e2 := os.OpenFile(tp(op.P), os.O_RDWR|os.O_CREATE|os.O_TRUNC, 0o644)
				if e2 == nil {
					e2 = g.Close()
				}
				gotErr, wantErr = e, e2
			case "OpenFile":
				data := []byte("0123456789")[:op.N]
				f, e := cl.OpenFile(sp(op.P, op.Abs), op.Flags)
				if e == nil {
					if op.N > 0 {
						_, we := f.Write(data)
						got = "write:" + vfErrCategory(we)
					}
					e = f.Close()
				}
				g, e2 := os.OpenFile(tp(op.P), op.Flags, 0o644)
				if e2 == nil {
					if op.N > 0 {
						_, we := g.WriteAt(data, 0)
						want = "write:" + vfErrCategory(we)
					}
					e2 = g.Close()
				}
				gotErr, wantErr = e, e2
			case "Remove":
				gotErr, wantErr = cl.Remove(sp(op.P, op.Abs)), os.Remove(tp(op.P))
			case "RemoveDirectory":
				// there is no os.Rmdir; like the server, compare with os.Remove (the name alone promises nothing)
				gotErr, wantErr = cl.RemoveDirectory(sp(op.P, op.Abs)), os.Remove(tp(op.P))
			case "RemoveAll":
				gotErr = cl.RemoveAll(sp(op.P, op.Abs))
				// documented difference: "An error will be returned if no file or directory with the specified path exists"
				if _, e := os.Lstat(tp(op.P)); e != nil {
					wantErr = e
				} else {
					wantErr = os.RemoveAll(tp(op.P))
				}
			case "Rename":
				gotErr, wantErr = cl.Rename(sp(op.P, op.Abs), sp(op.P2, op.Abs2)), os.Rename(tp(op.P), tp(op.P2))
			case "PosixRename":
				gotErr, wantErr = cl.PosixRename(sp(op.P, op.Abs), sp(op.P2, op.Abs2)), os.Rename(tp(op.P), tp(op.P2))
			case "Link":
				gotErr, wantErr = cl.Link(sp(op.P, op.Abs), sp(op.P2, op.Abs2)), os.Link(tp(op.P), tp(op.P2))
			case "Symlink":
				tS, tT := op.P2, op.P2
				if op.Abs2 {
					tS, tT = rootS+"/"+op.P2, rootT+"/"+op.P2
				}
				gotErr, wantErr = cl.Symlink(tS, sp(op.P, op.Abs)), os.Symlink(tT, tp(op.P))
			case "ReadLink":
				g, e := cl.ReadLink(sp(op.P, op.Abs))
				w, e2 := os.Readlink(tp(op.P))
				got, want, gotErr, wantErr = norm(g, rootS), norm(w, rootT), e, e2
			case "Stat":
				g, e := cl.Stat(sp(op.P, op.Abs))
				w, e2 := os.Stat(tp(op.P))
				gotErr, wantErr = e, e2
				if e == nil && e2 == nil {
					got, want = vfInfoString(g, true), vfInfoString(w, true)
				}
			case "Lstat":
				g, e := cl.Lstat(sp(op.P, op.Abs))
				w, e2 := os.Lstat(tp(op.P))
				gotErr, wantErr = e, e2
				if e == nil && e2 == nil {
					got, want = vfInfoString(g, true), vfInfoString(w, true)
				}
			case "Chmod":
				gotErr, wantErr = cl.Chmod(sp(op.P, op.Abs), os.FileMode(op.Mode)), os.Chmod(tp(op.P), os.FileMode(op.Mode))
			case "Chtimes":
				tm := time.Unix(op.N, 0)
				gotErr, wantErr = cl.Chtimes(sp(op.P, op.Abs), tm, tm), os.Chtimes(tp(op.P), tm, tm)
			case "Chown":
				gotErr, wantErr = cl.Chown(sp(op.P, op.Abs), int(op.N), int(op.N)+1), os.Chown(tp(op.P), int(op.N), int(op.N)+1)
			case "Truncate":
				gotErr, wantErr = cl.Truncate(sp(op.P, op.Abs), op.N), os.Truncate(tp(op.P), op.N)
			case "ReadDir":
				g, e := cl.ReadDir(sp(op.P, op.Abs))
				w, e2 := os.ReadDir(tp(op.P))
				gotErr, wantErr = e, e2
				var gs, ws []string
				for _, fi := range g {
					gs = append(gs, vfInfoString(fi, true))
				}
				for _, de := range w {
					fi, _ := de.Info()
					ws = append(ws, vfInfoString(fi, true))
				}
				sort.Strings(gs)
				sort.Strings(ws)
				got, want = strings.Join(gs, ","), strings.Join(ws, ",")
			case "Glob":
				pat := op.Pat
				g, e := cl.Glob(sp(pat, op.Abs))
				w, e2 := filepath.Glob(tp(pat))
				gotErr, wantErr = e, e2
				var gs, ws []string
				for _, p := range g {
					gs = append(gs, strings.TrimPrefix(strings.TrimPrefix(p, rootS), "/"))
				}
				for _, p := range w {
					ws = append(ws, strings.TrimPrefix(strings.TrimPrefix(p, rootT), "/"))
				}
				sort.Strings(gs)
				sort.Strings(ws)
				got, want = strings.Join(gs, ","), strings.Join(ws, ",")
			case "Walk":
				var gs, ws []string
				w := cl.Walk(sp(op.P, op.Abs))
				for k := 0; k < 500 && w.Step(); k++ {
					if w.Err() != nil {
						gs = append(gs, "ERR:"+vfErrCategory(w.Err()))
						continue
					}
					gs = append(gs, strings.TrimPrefix(strings.TrimPrefix(w.Path(), rootS), "/"))
				}
				filepath.Walk(tp(op.P), func(p string, fi os.FileInfo, err error) error {
					if err != nil {
						ws = append(ws, "ERR:"+vfErrCategory(err))
						return nil
					}
					ws = append(ws, strings.TrimPrefix(strings.TrimPrefix(p, rootT), "/"))
					return nil
				})
				sort.Strings(gs)
				sort.Strings(ws)
				got, want = strings.Join(gs, ","), strings.Join(ws, ",")
			case "RealPath":
				g, e := cl.RealPath(sp(op.P, op.Abs))
				got, want, gotErr = norm(g, rootS), norm(path.Clean(tp(op.P)), rootT), e
			case "StatVFS":
				g, e := cl.StatVFS(sp(op.P, op.Abs))
				var st syscall.Statfs_t
				e2 := syscall.Statfs(tp(op.P), &st)
				gotErr, wantErr = e, e2
				if e2 != nil {
					wantErr = &os.PathError{Op: "statfs", Path: tp(op.P), Err: e2}
				}
				if e == nil && e2 == nil {
					got = fmt.Sprintf("%d %d %d %d %d", g.Bsize, g.Frsize, g.Blocks, g.Files, g.Namemax)
					want = fmt.Sprintf("%d %d %d %d %d", st.Bsize, st.Frsize, st.Blocks, st.Files, st.Namelen)
				}
			default:
				ctx.Failf("harness/unknown-op", "%q", op.Op)
			}
			desc := fmt.Sprintf("step %d %+v", i, op)
			gc, wc := vfErrCategory(gotErr), vfErrCategory(wantErr)
			if gc != wc {
				ctx.Failf("C05/outcome/"+op.Op+"/"+gc+"-vs-"+wc, "%s: through sftp the outcome is %s (%v), package os gives %s (%v)", desc, gc, gotErr, wc, wantErr)
			}
			if got != want {
				ctx.Failf("C05/value/"+op.Op, "%s: through sftp %q, package os gives %q", desc, got, want)
			}
			if gc != "ok" {
				interesting = true
				ctx.Class("outcome=" + gc)
			}
			a, b := vfSnapshot(rootS), vfSnapshot(rootT)
			if d := vfSnapshotDiffC05(a, b, op); d != "" {
				ctx.Failf("C05/tree/"+op.Op, "%s: the served tree and the twin tree differ afterwards: %s", desc, d)
			}
			for _, e := range a {
				if e.Kind == "symlink" {
					interesting = true
				}
			}
		}
		return "", nil
	})
	if !vfAwait(ctx, done, "program") {
		ctx.Failf("C05/hang", "the program never finishes\n%s", vfDumpRelevant())
	}
	if res.Panic != nil {
		if f, ok := res.Panic.(*vfFailure); ok {
			panic(f)
		}
		ctx.Failf("panic/"+vfPanicSite([]byte(res.Stack)), "%v\n%s", res.Panic, vfTrimStack([]byte(res.Stack)))
	}
	if interesting {
		ctx.NonTrivial()
	}
	d2, _ := vfCall(func() (string, error) { return "", cl.Close() })
	if !vfAwait(ctx, d2, "client close") {
		ctx.Failf("C05/close-hangs", "client Close hangs")
	}
	if !vfAwait(ctx, srv.done, "Serve") {
		ctx.Failf("C05/serve-hangs", "Serve never returns")
	}
	vfCheckNoLeak(ctx, "C05/leak", baseline)
	_ = io.EOF
}

// vfSnapshotDiffC05 compares the two trees; mtimes only matter for the path a
// Chtimes just touched, and never for directories (entries come and go).
func vfSnapshotDiffC05(a, b []vfTreeEntry, op vfC05Op) string {
	na := make([]vfTreeEntry, len(a))
	nb := make([]vfTreeEntry, len(b))
	clean := func(dst, src []vfTreeEntry) {
		for i, e := range src {
			if !(op.Op == "Chtimes" && e.Kind == "file") {
				e.Mtime = 0
			} else if e.Mtime != op.N {
				e.Mtime = 0 // files other than the one just touched carry creation times
			}
			dst[i] = e
		}
	}
	clean(na, a)
	clean(nb, b)
	return vfSnapshotDiff(na, nb, true)
}

func TestVerifC05(t *testing.T) {
	vfDriveSub(t, "", vfProp[vfCaseC05]{ID: "C05", Gen: vfGenC05, Run: vfRunC05})
}
