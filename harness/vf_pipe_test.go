package sftp_test

// vf_pipe_test.go — in-memory duplex transport with faults, gates and taps.
// net.Pipe is synchronous and deadlocks as soon as a side pipelines; these
// queues are unbounded.

import (
	"encoding/binary"
	"errors"
	"io"
	"sync"
)

var errVfCut = errors.New("vf: injected transport read error")
var errVfWrite = errors.New("vf: injected transport write error")

// vfQ is one direction of a link.
type vfQ struct {
	mu   sync.Mutex
	cond *sync.Cond

	buf     []byte // visible to the reader
	held    []byte // written but gated
	gated   bool
	wclosed bool // writer closed: EOF after buf drains
	rclosed bool // reader closed: Read fails at once
	chunk   int  // max bytes per Read (0 = no limit)
	// capacity > 0: a Write returns only once the unread backlog is back at or below capacity - the
	// backpressure of a real transport (seed C03-g needs a writer that can be kept waiting)
	capacity int

	cut       int64 // deliver at most this many bytes in total, then cutErr (-1 = no cut)
	cutErr    error
	delivered int64

	tap    []byte // every byte ever written (accepted)
	writes int
	frames int  // complete frames in tap
	parsed int  // tap offset up to which frames were counted
	badTap bool // the tap stopped being a sequence of frames
	abort  bool // wakes WaitFrames

	failWrite   int   // index of the Write call that fails (-1 = none)
	failPartial int   // bytes that failing Write accepts
	failErr     error // what the failing Write (and every later one) returns; nil = errVfWrite
	wfailed     bool

	readBlocked int // readers currently waiting (for idle detection)
	onRead      func(total int64)
}

func newVfQ() *vfQ {
	q := &vfQ{cut: -1, failWrite: -1}
	q.cond = sync.NewCond(&q.mu)
	return q
}

func (q *vfQ) Read(p []byte) (int, error) {
	q.mu.Lock()
	defer q.mu.Unlock()
	for {
		if q.rclosed {
			return 0, io.ErrClosedPipe
		}
		if q.cut >= 0 && q.delivered >= q.cut {
			if q.cutErr != nil {
				return 0, q.cutErr
			}
			return 0, io.EOF
		}
		if len(q.buf) > 0 {
			n := len(p)
			if n > len(q.buf) {
				n = len(q.buf)
			}
			if q.chunk > 0 && n > q.chunk {
				n = q.chunk
			}
			if q.cut >= 0 && int64(n) > q.cut-q.delivered {
				n = int(q.cut - q.delivered)
			}
			copy(p, q.buf[:n])
			q.buf = q.buf[n:]
			q.delivered += int64(n)
			if q.onRead != nil {
				q.onRead(q.delivered)
			}
			if q.capacity > 0 {
				q.cond.Broadcast()
			}
			return n, nil
		}
		if len(p) == 0 {
			return 0, nil
		}
		if q.wclosed {
			return 0, io.EOF
		}
		q.readBlocked++
		q.cond.Wait()
		q.readBlocked--
	}
}

func (q *vfQ) Write(p []byte) (int, error) {
	q.mu.Lock()
	defer q.mu.Unlock()
	if q.wclosed {
		return 0, io.ErrClosedPipe
	}
	if q.wfailed {
		if q.failErr != nil {
			return 0, q.failErr
		}
		return 0, errVfWrite
	}
	idx := q.writes
	q.writes++
	n := len(p)
	var err error
	if idx == q.failWrite {
		if q.failPartial < n {
			n = q.failPartial
		} else if n > 0 {
			n-- // a Write that reports an error never delivered everything
		}
		err = errVfWrite
		if q.failErr != nil {
			err = q.failErr
		}
		q.wfailed = true
	}
	q.tap = append(q.tap, p[:n]...)
	for !q.badTap && len(q.tap)-q.parsed >= 4 {
		ln := int(binary.BigEndian.Uint32(q.tap[q.parsed:]))
		if ln == 0 || ln > vfMaxTapFrame {
			q.badTap = true
			break
		}
		if len(q.tap)-q.parsed-4 < ln {
			break
		}
		q.frames++
		q.parsed += 4 + ln
	}
	if q.gated {
		q.held = append(q.held, p[:n]...)
	} else {
		q.buf = append(q.buf, p[:n]...)
	}
	q.cond.Broadcast()
	for q.capacity > 0 && len(q.buf) > q.capacity && !q.rclosed && !q.wclosed && !(q.cut >= 0 && q.delivered >= q.cut) {
		q.cond.Wait()
	}
	return n, err
}

// CutAfterNext arranges for the stream to end (with err, or EOF when nil) right behind the next extra bytes
// written: everything accepted so far plus those bytes is delivered completely, nothing after it.
func (q *vfQ) CutAfterNext(extra int, err error) {
	q.mu.Lock()
	q.cut = int64(len(q.tap) + extra)
	q.cutErr = err
	q.mu.Unlock()
}

func (q *vfQ) closeWrite() {
	q.mu.Lock()
	q.wclosed = true
	// gated bytes become visible when the writer goes away
	q.buf = append(q.buf, q.held...)
	q.held = nil
	q.mu.Unlock()
	q.cond.Broadcast()
}

func (q *vfQ) closeRead() {
	q.mu.Lock()
	q.rclosed = true
	q.mu.Unlock()
	q.cond.Broadcast()
}

// Hold makes subsequent writes invisible to the reader until Release.
func (q *vfQ) Hold() {
	q.mu.Lock()
	q.gated = true
	q.mu.Unlock()
}

// Release makes n held bytes visible (n < 0: all, and stop gating).
func (q *vfQ) Release(n int) {
	q.mu.Lock()
	if n < 0 || n >= len(q.held) {
		q.buf = append(q.buf, q.held...)
		q.held = nil
		if n < 0 {
			q.gated = false
		}
	} else {
		q.buf = append(q.buf, q.held[:n]...)
		q.held = q.held[n:]
	}
	q.mu.Unlock()
	q.cond.Broadcast()
}

func (q *vfQ) Tap() []byte {
	q.mu.Lock()
	defer q.mu.Unlock()
	return append([]byte{}, q.tap...)
}

func (q *vfQ) TapLen() int {
	q.mu.Lock()
	defer q.mu.Unlock()
	return len(q.tap)
}

// WaitFrames blocks until the tap holds at least n complete frames (true) or
// AbortWait is called (false). Run it in its own goroutine under vfAwait.
func (q *vfQ) WaitFrames(n int) bool {
	q.mu.Lock()
	defer q.mu.Unlock()
	for q.frames < n && !q.abort {
		q.cond.Wait()
	}
	return q.frames >= n
}

func (q *vfQ) AbortWait() {
	q.mu.Lock()
	q.abort = true
	q.mu.Unlock()
	q.cond.Broadcast()
}

func (q *vfQ) ResetAbort() {
	q.mu.Lock()
	q.abort = false
	q.mu.Unlock()
}

func (q *vfQ) Frames() int {
	q.mu.Lock()
	defer q.mu.Unlock()
	return q.frames
}

func (q *vfQ) Writes() int {
	q.mu.Lock()
	defer q.mu.Unlock()
	return q.writes
}

func (q *vfQ) Pending() int {
	q.mu.Lock()
	defer q.mu.Unlock()
	return len(q.buf)
}

func (q *vfQ) Delivered() int64 {
	q.mu.Lock()
	defer q.mu.Unlock()
	return q.delivered
}

// ReaderIdle reports that a reader is parked with nothing visible to read.
func (q *vfQ) ReaderIdle() bool {
	q.mu.Lock()
	defer q.mu.Unlock()
	return q.readBlocked > 0 && len(q.buf) == 0
}

func (q *vfQ) WriterClosed() bool {
	q.mu.Lock()
	defer q.mu.Unlock()
	return q.wclosed
}

// vfEnd is one side of a link: reads from in, writes to out.
type vfEnd struct {
	in, out       *vfQ
	closeEndsRead bool // Close also ends Read (net.Conn-like); otherwise only the write side closes

	mu     sync.Mutex
	closes int
}

func (e *vfEnd) Read(p []byte) (int, error)  { return e.in.Read(p) }
func (e *vfEnd) Write(p []byte) (int, error) { return e.out.Write(p) }
func (e *vfEnd) Close() error {
	e.mu.Lock()
	e.closes++
	e.mu.Unlock()
	e.out.closeWrite()
	if e.closeEndsRead {
		e.in.closeRead()
	}
	return nil
}
func (e *vfEnd) Closes() int {
	e.mu.Lock()
	defer e.mu.Unlock()
	return e.closes
}

type vfLink struct {
	C2S, S2C *vfQ
	Client   *vfEnd // the client's end: reads S2C, writes C2S
	Server   *vfEnd // the server's end: reads C2S, writes S2C
}

func newVfLink() *vfLink {
	l := &vfLink{C2S: newVfQ(), S2C: newVfQ()}
	l.Client = &vfEnd{in: l.S2C, out: l.C2S, closeEndsRead: true}
	l.Server = &vfEnd{in: l.C2S, out: l.S2C, closeEndsRead: true}
	return l
}
