package sftp_test

// C04 — connection loss fails every call and hangs none (fault enumeration).

import (
	"bytes"
	"context"
	"errors"
	"flag"
	"fmt"
	"io"
	"os"
	"sort"
	"strconv"
	"sync"
	"sync/atomic"
	"testing"

	sftp "github.com/pkg/sftp"
	"pgregory.net/rapid"
)

type vfFault struct {
	Kind    string // none | cut (server->client stream ends) | write (client->server Write fails)
	At      int    // byte offset of the cut / index of the failing Write
	Err     bool   // cut: deliver an error instead of EOF
	Partial int    // write: bytes the failing Write accepts
	EOFErr  bool   `json:",omitempty"` // write: the failing Write returns io.EOF, as a closed x/crypto/ssh channel does (seed F02)
}

type vfCaseC04 struct {
	Opts  vfOpts
	Prog  []string // sequential main program (client operation names)
	Bg    []string `json:",omitempty"` // background transfers running concurrently
	Extra []int    `json:",omitempty"` // extra cut offsets (mod stream length) for long streams
}

type vfCaseC04One struct {
	vfCaseC04
	Fault vfFault
}

// operations whose trailing requests are fire-and-forget by design (their
// result does not depend on every reply): a straddling cut may leave them
// successful.
// The same holds for reads that run past the end of the file: the result is
// decided by the lowest-offset EOF, replies for higher offsets are irrelevant.
// All of these return a listing or a content hash, so "equals the reference"
// is real evidence that they obtained everything they needed.
var vfC04Tolerant = map[string]bool{"ReadDir": true, "Glob": true, "Walk": true, "F.WriteTo": true, "RemoveAll": true,
	"F.Read": true, "F.ReadAtPastEOF": true}

// Glob is documented to ignore file system errors ("The only possible returned
// error is ErrBadPattern"): it only has to return.
var vfC04NeverErrors = map[string]bool{"Glob": true}

var vfC04BgOps = []string{"F.ReadAtBig", "F.WriteTo", "F.WriteAt", "F.ReadFrom", "F.ReadFromWithConcurrency", "F.Read", "Stat", "ReadDir"}

func vfGenC04(t *rapid.T) vfCaseC04 {
	c := vfCaseC04{Opts: vfGenSmallOpts(t)}
	n := rapid.IntRange(1, 6).Draw(t, "nops")
	for i := 0; i < n; i++ {
		c.Prog = append(c.Prog, rapid.SampledFrom(vfClientOps).Draw(t, "op").Name)
	}
	if rapid.IntRange(0, 3).Draw(t, "bg?") == 0 {
		nb := rapid.IntRange(1, 3).Draw(t, "nbg")
		for i := 0; i < nb; i++ {
			c.Bg = append(c.Bg, rapid.SampledFrom(vfC04BgOps).Draw(t, "bgop"))
		}
	}
	c.Extra = rapid.SliceOfN(rapid.IntRange(0, 1<<20), 0, 24).Draw(t, "extra")
	return c
}

type vfC04OpRec struct {
	Name     string
	Res      *vfOpResult
	C2SStart int
	C2SEnd   int
	W0, W1   int // client->server Write calls before / after the operation
}

type vfC04Run struct {
	HandshakeErr error
	Ops          []vfC04OpRec
	Bg           []*vfOpResult
	S2CLen       int // bytes the peer produced
	C2SWrites    int
	Frames       []int // end offsets of the frames of the peer->client stream
	Delivered    int64
	Reqs         []vfPeerReq
}

func vfRunOp(s *vfSess, op *vfClientOp) (string, error) {
	var f *sftp.File
	if op.OpenPath != "" {
		var err error
		f, err = s.c.OpenFile(op.OpenPath, op.OpenFlag)
		if err != nil {
			return "open-failed", err
		}
	}
	return op.Run(s, f)
}

// vfC04Session runs the program once under the given fault and checks the
// return / shutdown / leak part of the oracle.
func vfC04Session(ctx *vfCtx, c *vfCaseC04, fault vfFault) *vfC04Run {
	baseline := vfPkgGoroutineIDs()
	run := &vfC04Run{}
	fkey := fault.Kind
	s, err := vfStartSession(c.Opts, func(p *vfPeer, l *vfLink) {
		p.exts = append(p.exts, vfExt{[]byte(vfExtFsync), []byte("1")})
		switch fault.Kind {
		case "cut":
			l.S2C.cut = int64(fault.At)
			if fault.Err {
				l.S2C.cutErr = errVfCut
			}
		case "write":
			l.C2S.failWrite = fault.At
			l.C2S.failPartial = fault.Partial
			if fault.EOFErr {
				l.C2S.failErr = io.EOF
			}
		}
	})
	if err != nil {
		run.HandshakeErr = err
		vfEndSession(ctx, "C04/"+fkey+"/handshake", s, baseline)
		if s.link.Client.Closes() == 0 {
			ctx.Failf("C04/handshake-writer-not-closed", "NewClientPipe failed (%v) without closing the writer", err)
		}
		run.S2CLen = s.link.S2C.TapLen()
		return run
	}
	// background transfers
	var bgDone []<-chan struct{}
	for _, name := range c.Bg {
		op := vfClientOpByName[name]
		d, r := vfCall(func() (string, error) { return vfRunOp(s, op) })
		bgDone = append(bgDone, d)
		run.Bg = append(run.Bg, r)
	}
	for _, name := range c.Prog {
		op := vfClientOpByName[name]
		rec := vfC04OpRec{Name: name, C2SStart: s.link.C2S.TapLen(), W0: s.link.C2S.Writes()}
		d, r := vfCall(func() (string, error) { return vfRunOp(s, op) })
		if !vfAwait(ctx, d, "operation "+name) {
			ctx.Failf("C04/hang/"+fkey+"/"+name, "%s never returns under fault %+v\n%s", name, fault, vfDumpRelevant())
		}
		if r.Panic != nil {
			ctx.Failf("panic/"+vfPanicSite([]byte(r.Stack)), "%s panicked under fault %+v: %v\n%s", name, fault, r.Panic, vfTrimStack([]byte(r.Stack)))
		}
		if name == "F.WriteTo" {
			// its request feeder may still be putting one speculative READ on the wire
			vfWaitGone("(*File).WriteTo")
		}
		rec.Res = r
		rec.C2SEnd = s.link.C2S.TapLen()
		rec.W1 = s.link.C2S.Writes()
		run.Ops = append(run.Ops, rec)
	}
	for i, d := range bgDone {
		if !vfAwait(ctx, d, "background "+c.Bg[i]) {
			ctx.Failf("C04/hang/"+fkey+"/bg-"+c.Bg[i], "background %s never returns under fault %+v\n%s", c.Bg[i], fault, vfDumpRelevant())
		}
		if r := run.Bg[i]; r.Panic != nil {
			ctx.Failf("panic/"+vfPanicSite([]byte(r.Stack)), "background %s panicked under fault %+v: %v\n%s", c.Bg[i], fault, r.Panic, vfTrimStack([]byte(r.Stack)))
		}
	}
	vfEndSession(ctx, "C04/"+fkey, s, baseline)
	run.S2CLen = s.link.S2C.TapLen()
	run.Delivered = s.link.S2C.Delivered()
	run.C2SWrites = s.link.C2S.Writes()
	run.Reqs = s.peer.Requests()
	off := 0
	bodies, _, _ := vfSplitFrames(s.link.S2C.Tap())
	for _, b := range bodies {
		off += 4 + len(b)
		run.Frames = append(run.Frames, off)
	}
	return run
}

// vfC04Judge compares a faulted run with the fault-free reference.
func vfC04Judge(ctx *vfCtx, c *vfCaseC04, fault vfFault, ref, run *vfC04Run) {
	one := vfCaseC04One{vfCaseC04: *c, Fault: fault}
	fail := func(key, format string, args ...any) {
		ctx.FailAlt("one", one, key, "fault %+v: %s", fault, fmt.Sprintf(format, args...))
	}
	if run.HandshakeErr != nil {
		return // construction failed cleanly (checked in the session)
	}
	if fault.Kind == "cut" && ref.Frames != nil && len(ref.Frames) > 0 && fault.At < ref.Frames[0] {
		fail("C04/handshake-accepted", "the stream ended at byte %d, inside the %d-byte VERSION frame, yet NewClientPipe succeeded", fault.At, ref.Frames[0])
	}
	triggered := true
	if fault.Kind == "cut" && run.Delivered < int64(fault.At) {
		triggered = false // this run's stream was shorter than the cut offset
	}
	if fault.Kind == "write" && run.C2SWrites <= fault.At {
		triggered = false
	}
	for i, rec := range run.Ops {
		var want *vfOpResult
		if i < len(ref.Ops) {
			want = ref.Ops[i].Res
		}
		same := want != nil && rec.Res.Val == want.Val && vfErrClass(rec.Res.Err) == vfErrClass(want.Err)
		if !triggered {
			if !same && len(c.Bg) == 0 {
				fail("C04/nondeterministic/"+rec.Name, "fault never triggered but %s gave (%q,%v), reference (%q,%v)", rec.Name, rec.Res.Val, rec.Res.Err, want.Val, want.Err)
			}
			continue
		}
		if len(c.Bg) > 0 {
			// requests of several goroutines interleave: only "reference or error"
			if rec.Res.Err == nil && want.Err == nil && rec.Res.Val != want.Val && !vfC04NeverErrors[rec.Name] {
				fail("C04/wrong-result/"+rec.Name, "%s returned (%q, nil), neither the reference (%q,%v) nor an error", rec.Name, rec.Res.Val, want.Val, want.Err)
			}
			continue
		}
		if fault.Kind == "write" {
			switch {
			case rec.W1 <= fault.At:
				// all its writes happened before the failing one
				if !same {
					fail("C04/lost-complete-reply/"+rec.Name, "%s finished before write #%d failed, but returned (%q,%v) instead of the reference (%q,%v)", rec.Name, fault.At, rec.Res.Val, rec.Res.Err, want.Val, want.Err)
				}
			default:
				if rec.Res.Err == nil && !(vfC04Tolerant[rec.Name] && same) && !vfC04NeverErrors[rec.Name] {
					fail("C04/no-error/"+rec.Name, "a request of %s was not written (write #%d failed; the operation made writes #%d..#%d, %d in the whole run) but it returned (%q, nil)", rec.Name, fault.At, rec.W0, rec.W1-1, run.C2SWrites, rec.Res.Val)
				}
			}
			continue
		}
		if vfC04NeverErrors[rec.Name] {
			continue
		}
		// which requests did this operation put on the wire, and were all their replies delivered?
		nreq, delivered := 0, true
		for _, rq := range run.Reqs {
			if rq.ReqEnd > rec.C2SStart && rq.ReqEnd <= rec.C2SEnd {
				nreq++
				if rq.ReplyEnd == 0 || rq.ReplyEnd > fault.At {
					delivered = false
				}
			}
		}
		// an operation that could not even issue all the requests it needs is not complete
		refReq := 0
		if i < len(ref.Ops) {
			for _, rq := range ref.Reqs {
				if rq.ReqEnd > ref.Ops[i].C2SStart && rq.ReqEnd <= ref.Ops[i].C2SEnd {
					refReq++
				}
			}
		}
		if nreq < refReq {
			delivered = false
		}
		switch {
		case nreq == 0:
			if rec.Res.Err == nil {
				fail("C04/no-error-after-loss/"+rec.Name, "%s put nothing on the wire after the connection was lost yet returned (%q, nil)", rec.Name, rec.Res.Val)
			}
		case delivered:
			if !same {
				fail("C04/lost-complete-reply/"+rec.Name, "all replies of %s ended before the cut, but it returned (%q,%v) instead of the reference (%q,%v)", rec.Name, rec.Res.Val, rec.Res.Err, want.Val, want.Err)
			}
		default:
			if rec.Res.Err == nil && !(vfC04Tolerant[rec.Name] && same) {
				fail("C04/no-error/"+rec.Name, "%s lost part of its replies but returned (%q, nil); reference (%q,%v)", rec.Name, rec.Res.Val, want.Val, want.Err)
			}
		}
	}
	for i, r := range run.Bg {
		want := ref.Bg[i]
		if r.Err == nil && want.Err == nil && r.Val != want.Val {
			fail("C04/wrong-result/bg-"+c.Bg[i], "background %s returned (%q, nil); reference (%q,%v)", c.Bg[i], r.Val, want.Val, want.Err)
		}
	}
}

func vfRunC04(ctx *vfCtx, c vfCaseC04) {
	for _, n := range append(append([]string{}, c.Prog...), c.Bg...) {
		if vfClientOpByName[n] == nil {
			ctx.Failf("harness/unknown-op", "%q", n)
		}
		ctx.Class("op=" + n)
	}
	ref := vfC04Session(ctx, &c, vfFault{Kind: "none"})
	if ref.HandshakeErr != nil {
		ctx.Failf("harness/handshake", "fault-free handshake failed: %v", ref.HandshakeErr)
	}
	T := ref.S2CLen
	// cut offsets
	offs := map[int]bool{}
	if T <= 700 {
		for k := 0; k <= T; k++ {
			offs[k] = true
		}
	} else {
		prev := 0
		for _, e := range ref.Frames {
			for _, d := range []int{0, 1, 3, 4, 5, 8, 9, 12} {
				if prev+d <= T {
					offs[prev+d] = true
				}
			}
			offs[e-1] = true
			prev = e
		}
		for _, x := range c.Extra {
			offs[x%(T+1)] = true
		}
	}
	var cuts []int
	for k := range offs {
		cuts = append(cuts, k)
	}
	sort.Ints(cuts)
	nruns := 0
	for _, k := range cuts {
		for _, asErr := range []bool{false, true} {
			f := vfFault{Kind: "cut", At: k, Err: asErr}
			vfJournal("C04", "one", vfMustJSON(vfCaseC04One{vfCaseC04: c, Fault: f}))
			run := vfC04SessionAlt(ctx, &c, f)
			vfC04Judge(ctx, &c, f, ref, run)
			nruns++
		}
	}
	// client->server write failures
	for w := 0; w < ref.C2SWrites; w++ {
		for _, partial := range []int{0, 3, -1} {
			f := vfFault{Kind: "write", At: w, Partial: partial}
			if partial < 0 {
				f.Partial, f.EOFErr = 0, true // the transport reports its end as io.EOF
			}
			vfJournal("C04", "one", vfMustJSON(vfCaseC04One{vfCaseC04: c, Fault: f}))
			run := vfC04SessionAlt(ctx, &c, f)
			vfC04Judge(ctx, &c, f, ref, run)
			nruns++
		}
	}
	vfAddExtra("faulted_runs", nruns)
	if T > 0 && len(c.Prog) > 0 {
		ctx.NonTrivial()
	}
	if len(c.Bg) > 0 {
		ctx.Class("background")
	}
	if T <= 700 {
		ctx.Class("all-offsets")
	} else {
		ctx.Class("boundary-offsets")
	}
}

// vfC04SessionAlt runs a faulted session and re-labels any failure with the
// single-fault case, so the replay file is minimal.
func vfC04SessionAlt(ctx *vfCtx, c *vfCaseC04, f vfFault) *vfC04Run {
	var run *vfC04Run
	if fl := vfProtect(func() { run = vfC04Session(ctx, c, f) }); fl != nil {
		fl.AltSub, fl.AltCase = "one", vfCaseC04One{vfCaseC04: *c, Fault: f}
		panic(fl)
	}
	return run
}

func vfRunC04One(ctx *vfCtx, c vfCaseC04One) {
	ref := vfC04Session(ctx, &c.vfCaseC04, vfFault{Kind: "none"})
	run := vfC04Session(ctx, &c.vfCaseC04, c.Fault)
	vfC04Judge(ctx, &c.vfCaseC04, c.Fault, ref, run)
	ctx.NonTrivial()
}

// ---- storm: callers keep registering requests while the receiver shuts down -----------------

type vfCaseC04Storm struct {
	Opts    vfOpts
	Workers [][]string // per goroutine: Stat | ReadAtSmall | ReadAtBig | WriteAt | ReadDir
	CutAt   int        // byte offset of the server->client stream at which it ends
	AsErr   bool
	Window  int
	Order   []int
}

func vfGenC04Storm(t *rapid.T) vfCaseC04Storm {
	c := vfCaseC04Storm{Opts: vfGenSmallOpts(t)}
	ng := rapid.IntRange(2, 6).Draw(t, "workers")
	for g := 0; g < ng; g++ {
		c.Workers = append(c.Workers, rapid.SliceOfN(rapid.SampledFrom([]string{"Stat", "Stat", "ReadAtSmall", "ReadAtBig", "WriteAt", "ReadDir"}), 2, 12).Draw(t, "prog"))
	}
	c.CutAt = rapid.IntRange(40, 3000).Draw(t, "cutat")
	c.AsErr = rapid.Bool().Draw(t, "aserr")
	c.Window = rapid.SampledFrom([]int{1, 2, 4, 8}).Draw(t, "window")
	c.Order = rapid.SliceOfN(rapid.IntRange(0, 7), 1, 8).Draw(t, "order")
	return c
}

func vfRunC04Storm(ctx *vfCtx, c vfCaseC04Storm) {
	baseline := vfPkgGoroutineIDs()
	s, err := vfStartSession(c.Opts, func(p *vfPeer, l *vfLink) {
		p.window, p.order = c.Window, c.Order
		l.S2C.cut = int64(c.CutAt)
		if c.AsErr {
			l.S2C.cutErr = errVfCut
		}
	})
	if err != nil {
		// the cut fell into the handshake
		vfEndSession(ctx, "C04/storm/handshake", s, baseline)
		return
	}
	// the cut may already fall into the two opens: they are calls like any other and must not hang either
	var fr, fw *sftp.File
	var e1, e2 error
	dOpen, _ := vfCall(func() (string, error) {
		fr, e1 = s.c.Open("/file")
		fw, e2 = s.c.OpenFile("/victim", os.O_RDWR)
		return "", nil
	})
	if !vfAwait(ctx, dOpen, "opens") {
		ctx.Failf("C04/storm/hang", "an Open during the connection loss never returns\n%s", vfDumpRelevant())
	}
	mp := c.Opts.MaxPacket
	type bad struct{ key, msg string }
	bads := make(chan bad, 64)
	var dones []<-chan struct{}
	failedCalls := 0
	var failedMu sync.Mutex
	for g, prog := range c.Workers {
		g, prog := g, prog
		d, _ := vfCall(func() (string, error) {
			lost := false
			for k, m := range prog {
				var err error
				switch m {
				case "Stat":
					var fi os.FileInfo
					fi, err = s.c.Stat("/probe")
					if err == nil && fi.Size() != 5 {
						bads <- bad{"C04/storm/wrong-result/Stat", fmt.Sprintf("worker %d call %d: Stat(/probe).Size=%d with nil error", g, k, fi.Size())}
					}
				case "ReadAtSmall", "ReadAtBig":
					if e1 != nil {
						err = e1
						break
					}
					n := 5
					if m == "ReadAtBig" {
						n = 2*mp + 3
					}
					b := make([]byte, n)
					var got int
					got, err = fr.ReadAt(b, 1)
					if err == nil && (got != n || !bytes.Equal(b, vfPRFBytes(vfFileSeed, 1, n))) {
						bads <- bad{"C04/storm/wrong-result/" + m, fmt.Sprintf("worker %d call %d: wrong bytes with nil error", g, k)}
					}
				case "WriteAt":
					if e2 != nil {
						err = e2
						break
					}
					_, err = fw.WriteAt(vfPRFBytes(uint32(g), 0, mp+1), int64(g*4*mp))
				case "ReadDir":
					var fis []os.FileInfo
					fis, err = s.c.ReadDir("/dir")
					if err == nil && len(fis) != 4 {
						bads <- bad{"C04/storm/wrong-result/ReadDir", fmt.Sprintf("worker %d call %d: %d entries with nil error", g, k, len(fis))}
					}
				}
				if err != nil {
					lost = true
					failedMu.Lock()
					failedCalls++
					failedMu.Unlock()
				} else if lost && m != "ReadDir" {
					// once a call of this goroutine has failed because the connection is gone, a later one cannot succeed
					bads <- bad{"C04/storm/success-after-loss/" + m, fmt.Sprintf("worker %d call %d (%s) succeeded after an earlier call of the same goroutine had failed", g, k, m)}
				}
			}
			return "", nil
		})
		dones = append(dones, d)
	}
	for g, d := range dones {
		if !vfAwait(ctx, d, fmt.Sprintf("storm worker %d", g)) {
			ctx.Failf("C04/storm/hang", "worker %d never returns (cut at %d)\n%s", g, c.CutAt, vfDumpRelevant())
		}
	}
	select {
	case b := <-bads:
		ctx.Failf(b.key, "%s (stream cut at byte %d)", b.msg, c.CutAt)
	default:
	}
	if s.link.S2C.Delivered() >= int64(c.CutAt) {
		// the connection is gone: every new call must fail
		dd, r := vfCall(func() (string, error) { _, err := s.c.Stat("/probe"); return "", err })
		if !vfAwait(ctx, dd, "Stat after loss") {
			ctx.Failf("C04/storm/hang-after-loss", "a Stat issued after the connection was lost never returns\n%s", vfDumpRelevant())
		}
		if r.Err == nil {
			ctx.Failf("C04/storm/no-error-after-loss", "a Stat issued after the stream had ended at byte %d succeeded", c.CutAt)
		}
		if failedCalls > 0 {
			ctx.NonTrivial()
			ctx.Class("storm-calls-failed")
		}
	}
	vfEndSession(ctx, "C04/storm", s, baseline)
}

// ---- "late": the caller starts waiting only after the receiver has shut down ----------------
//
// Last clause of the statement: a reply that was received completely before the failure is still returned.
// The reply is complete, the stream ends right behind it, and the caller - delayed between sending its
// request and waiting for the answer, which a context whose Done method is slow does through the public API -
// finds both the delivered reply and the finished shutdown when it looks (seed C04-h: taking the shutdown
// for the answer throws the reply away).

type vfCaseC04Late struct {
	Opts  vfOpts
	Code  uint32 // status the peer gives the OPENDIR
	AsErr bool   // the stream ends in a read error instead of EOF
}

type vfLateCtx struct {
	context.Context
	calls   atomic.Int32
	blockOn int32
	gate    <-chan struct{}
}

func (c *vfLateCtx) Done() <-chan struct{} {
	if c.calls.Add(1) == c.blockOn {
		<-c.gate
	}
	return nil // never cancelled
}

func (c *vfLateCtx) Err() error { return nil }

func vfRunC04Late(ctx *vfCtx, c vfCaseC04Late) {
	baseline := vfPkgGoroutineIDs()
	ctx.Class(fmt.Sprintf("late-code=%d", c.Code))
	var link *vfLink
	s, err := vfStartSession(c.Opts, func(p *vfPeer, l *vfLink) {
		link = l
		p.mutate = func(idx int, req *vfPkt, frame []byte) []byte {
			if req.Type == vfFxpOpendir {
				frame = vfEncode(vfStatus(req.ID, c.Code, "late"))
				var e error
				if c.AsErr {
					e = errVfCut
				}
				link.S2C.CutAfterNext(len(frame), e)
			}
			return frame
		}
	})
	if err != nil {
		ctx.Failf("harness/handshake", "%v", err)
	}
	gate := make(chan struct{})
	dW, _ := vfCall(func() (string, error) { s.c.Wait(); close(gate); return "", nil })
	lc := &vfLateCtx{Context: context.Background(), blockOn: 1, gate: gate}
	var got error
	d, r := vfCall(func() (string, error) {
		_, got = s.c.ReadDirContext(lc, "/dir")
		return "", nil
	})
	if !vfAwait(ctx, d, "ReadDirContext") {
		ctx.Failf("C04/late/hang", "ReadDirContext never returns although its reply arrived and the connection is gone\n%s", vfDumpRelevant())
	}
	if r.Panic != nil {
		ctx.Failf("panic/"+vfPanicSite([]byte(r.Stack)), "%v\n%s", r.Panic, vfTrimStack([]byte(r.Stack)))
	}
	if !vfAwait(ctx, dW, "Client.Wait") {
		ctx.Failf("C04/late/wait-hangs", "Client.Wait never returns after the stream ended\n%s", vfDumpRelevant())
	}
	desc := fmt.Sprintf("the status %d reply to OPENDIR was received completely, then the stream ended (error=%v), and only then did the caller start waiting", c.Code, c.AsErr)
	ok := false
	switch c.Code {
	case vfFxNoSuchFile:
		ok = errors.Is(got, os.ErrNotExist)
	case vfFxPermissionDenied:
		ok = errors.Is(got, os.ErrPermission)
	default:
		var se *sftp.StatusError
		ok = errors.As(got, &se) && uint32(se.Code) == c.Code && se.Code != 7 // not CONNECTION_LOST made up by the client
	}
	if !ok {
		ctx.Failf("C04/late/reply-lost", "%s: ReadDirContext returned %T %v instead of the reply it had received", desc, got, got)
	}
	ctx.NonTrivial()
	vfEndSession(ctx, "C04/late", s, baseline)
}

func TestVerifC04(t *testing.T) {
	t.Run("enum", func(t *testing.T) {
		vfDriveSub(t, "enum", vfProp[vfCaseC04]{ID: "C04", Gen: vfGenC04, Run: vfRunC04})
	})
	t.Run("storm", func(t *testing.T) {
		restore := vfScaleChecks(1)
		defer restore()
		if f := flag.Lookup("rapid.checks"); f != nil {
			n, _ := strconv.Atoi(f.Value.String())
			flag.Set("rapid.checks", strconv.Itoa(n*15))
		}
		vfDriveSub(t, "storm", vfProp[vfCaseC04Storm]{ID: "C04", Gen: vfGenC04Storm, Run: vfRunC04Storm})
	})
	t.Run("late", func(t *testing.T) {
		defer vfScaleChecks(1)()
		vfDriveSub(t, "late", vfProp[vfCaseC04Late]{ID: "C04", Run: vfRunC04Late, Gen: func(rt *rapid.T) vfCaseC04Late {
			return vfCaseC04Late{Opts: vfGenSmallOpts(rt), Code: rapid.SampledFrom([]uint32{vfFxNoSuchFile, vfFxPermissionDenied, vfFxFailure, vfFxBadMessage, vfFxOpUnsupported}).Draw(rt, "code"), AsErr: rapid.Bool().Draw(rt, "aserr")}
		}})
	})
	t.Run("one", func(t *testing.T) {
		defer vfScaleChecks(1)()
		vfDriveSub(t, "one", vfProp[vfCaseC04One]{ID: "C04", Run: vfRunC04One, Gen: func(rt *rapid.T) vfCaseC04One {
			c := vfGenC04(rt)
			f := vfFault{Kind: "cut", At: rapid.IntRange(0, 600).Draw(rt, "cutat"), Err: rapid.Bool().Draw(rt, "aserr")}
			if rapid.IntRange(0, 4).Draw(rt, "writefault") == 0 {
				f = vfFault{Kind: "write", At: rapid.IntRange(0, 20).Draw(rt, "widx"), Partial: rapid.SampledFrom([]int{0, 1, 3, 4, 5, 9}).Draw(rt, "partial"), EOFErr: rapid.Bool().Draw(rt, "eoferr")}
			}
			return vfCaseC04One{vfCaseC04: c, Fault: f}
		}})
	})
}
