package sftp_test

// C19 — version and extension negotiation is truthful.

import (
	"bytes"
	"encoding/binary"
	"errors"
	"fmt"
	"os"
	"testing"

	sftp "github.com/pkg/sftp"
	"pgregory.net/rapid"
)

// ---- (a) handshake replies -----------------------------------------------------------------

type vfCaseC19H struct {
	Reply []byte // raw bytes the peer sends in answer to INIT
	EOF   bool   // the peer closes its side after Reply
	Probe [][]byte
}

func vfGenC19H(t *rapid.T) vfCaseC19H {
	p := &vfPkt{Type: vfFxpVersion, Version: 3}
	switch rapid.IntRange(0, 5).Draw(t, "verkind") {
	case 0:
		p.Version = rapid.SampledFrom([]uint32{0, 1, 2, 4, 5, 6, 1 << 31, 1<<32 - 1, 0x03000000, 0x00000300}).Draw(t, "version")
	}
	next := rapid.IntRange(0, 6).Draw(t, "next")
	for i := 0; i < next; i++ {
		name := rapid.SampledFrom([]string{vfExtStatVFS, vfExtPosixRename, vfExtHardlink, vfExtFsync, "", "x@y", "\xff\xfe@z", "dup@x", "dup@x"}).Draw(t, "extname")
		if rapid.IntRange(0, 30).Draw(t, "hugename") == 0 {
			name = string(bytes.Repeat([]byte("n"), 70000))
		}
		p.Exts = append(p.Exts, vfExt{Name: []byte(name), Data: []byte(rapid.SampledFrom([]string{"1", "2", "", "data", "\x00"}).Draw(t, "extdata"))})
	}
	frame := vfEncode(p)
	c := vfCaseC19H{}
	switch rapid.IntRange(0, 9).Draw(t, "mut") {
	case 0, 1, 2:
		// valid as built
	case 3:
		frame[4] = rapid.Byte().Draw(t, "type")
	case 4:
		// every truncation: stream ends inside the frame
		frame = frame[:rapid.IntRange(0, len(frame)-1).Draw(t, "cut")]
		c.EOF = true
	case 5:
		// well-framed but short body (dangling half pair, cut strings)
		body := frame[4:]
		body = body[:rapid.IntRange(1, len(body)).Draw(t, "bodycut")]
		frame = vfFrame(body)
	case 6:
		binary.BigEndian.PutUint32(frame, rapid.SampledFrom([]uint32{0, 256*1024 + 1, 1<<32 - 1, 1 << 31}).Draw(t, "framelen"))
		c.EOF = true
	case 7:
		frame = append(frame, rapid.SliceOfN(rapid.Byte(), 1, 20).Draw(t, "garbage")...)
	case 8:
		// one string length of an extension corrupted
		if len(frame) >= 13 {
			off := 9
			binary.BigEndian.PutUint32(frame[off:], rapid.SampledFrom([]uint32{0, 1, 1<<32 - 1, 1<<31 - 1, 70001}).Draw(t, "slen"))
		}
	default:
		frame = rapid.SliceOfN(rapid.Byte(), 0, 40).Draw(t, "random")
		c.EOF = true
	}
	c.Reply = frame
	c.Probe = [][]byte{[]byte("never@advertised"), []byte(vfExtFsync), []byte("")}
	return c
}

func vfRunC19H(ctx *vfCtx, c vfCaseC19H) {
	baseline := vfPkgGoroutineIDs()
	l := newVfLink()
	// a minimal peer: read INIT, send the scripted reply
	peerDone := make(chan struct{})
	go func() {
		defer close(peerDone)
		var hdr [4]byte
		if _, err := readFull(l.Server, hdr[:]); err != nil {
			return
		}
		body := make([]byte, binary.BigEndian.Uint32(hdr[:]))
		readFull(l.Server, body)
		l.Server.Write(c.Reply)
		if c.EOF {
			l.S2C.closeWrite()
		}
	}()
	var cl *sftp.Client
	var err error
	d, r := vfCall(func() (string, error) {
		cl, err = sftp.NewClientPipe(l.Client, l.Client)
		return "", nil
	})
	if !vfAwait(ctx, d, "NewClientPipe") {
		// the reply is shorter than a frame and the peer keeps the stream open: the client is entitled to wait
		if !c.EOF {
			l.S2C.closeWrite()
			if vfAwait(ctx, d, "NewClientPipe after EOF") {
				goto decided
			}
		}
		ctx.Failf("C19/handshake-hangs", "NewClientPipe never returns for reply %s\n%s", vfHex(c.Reply), vfDumpRelevant())
	}
decided:
	if r.Panic != nil {
		ctx.Failf("panic/"+vfPanicSite([]byte(r.Stack)), "NewClientPipe panicked on reply %s: %v\n%s", vfHex(c.Reply), r.Panic, vfTrimStack([]byte(r.Stack)))
	}
	// the reference verdict
	wantOK := false
	var exts []vfExt
	bodies, _, _ := vfSplitFrames(c.Reply)
	if len(bodies) >= 1 && len(bodies[0]) <= vfMaxFrame { // a longer frame may be refused as too long
		if p, _, e := vfDecodeBody(bodies[0]); e == nil && p.Type == vfFxpVersion && p.Version == 3 {
			wantOK = true
			exts = p.Exts
		}
	}
	desc := fmt.Sprintf("handshake reply %s", vfHex(c.Reply))
	switch {
	case wantOK && err != nil:
		ctx.Failf("C19/handshake-refused", "%s is a well-formed VERSION 3, but NewClientPipe failed: %v", desc, err)
	case !wantOK && err == nil:
		ctx.Failf("C19/handshake-accepted", "%s is not a well-formed VERSION 3 packet, but a session was established", desc)
	}
	if err != nil {
		ctx.Class("handshake=refused")
		if cl != nil {
			ctx.Failf("C19/client-and-error", "both a client and an error were returned")
		}
		if l.Client.Closes() == 0 {
			ctx.Failf("C19/writer-not-closed", "%s: construction failed (%v) but the writer was not closed", desc, err)
		}
	} else {
		ctx.Class("handshake=accepted")
		adv := map[string][]string{}
		for _, e := range exts {
			adv[string(e.Name)] = append(adv[string(e.Name)], string(e.Data))
		}
		for name, datas := range adv {
			got, ok := cl.HasExtension(name)
			match := false
			for _, dd := range datas {
				if dd == got {
					match = true
				}
			}
			if !ok || !match {
				ctx.Failf("C19/extension-not-reported", "%s advertises %q = %q but HasExtension reports (%q, %v)", desc, name, datas, got, ok)
			}
		}
		for _, pn := range c.Probe {
			if _, advd := adv[string(pn)]; !advd {
				if got, ok := cl.HasExtension(string(pn)); ok {
					ctx.Failf("C19/extension-invented", "%s does not advertise %q but HasExtension reports (%q, true)", desc, pn, got)
				}
			}
		}
		dc, _ := vfCall(func() (string, error) { return "", cl.Close() })
		if !vfAwait(ctx, dc, "Close") {
			ctx.Failf("C19/close-hangs", "Client.Close hangs after a successful handshake\n%s", vfDumpRelevant())
		}
	}
	l.S2C.closeWrite()
	l.C2S.closeWrite()
	<-peerDone
	vfCheckNoLeak(ctx, "C19/leak", baseline)
	if !bytes.Equal(c.Reply, vfEncode(&vfPkt{Type: vfFxpVersion, Version: 3})) {
		ctx.NonTrivial()
	}
}

func readFull(e *vfEnd, b []byte) (int, error) {
	n := 0
	for n < len(b) {
		k, err := e.Read(b[n:])
		n += k
		if err != nil {
			return n, err
		}
	}
	return n, nil
}

// ---- (b) configuration ----------------------------------------------------------------------------

type vfCaseC19C struct {
	Names []string
	Kind  string // os | rs
}

var vfC19Data = map[string]string{vfExtHardlink: "1", vfExtPosixRename: "1", vfExtStatVFS: "2"}

func vfRunC19C(ctx *vfCtx, c vfCaseC19C) {
	baseline := vfPkgGoroutineIDs()
	sftp.VfResetGlobals()
	defer sftp.VfResetGlobals()
	before := sftp.VfCurrentExtensions()
	err := sftp.SetSFTPExtensions(c.Names...)
	valid := true
	for _, n := range c.Names {
		if _, ok := vfC19Data[n]; !ok {
			valid = false
		}
	}
	desc := fmt.Sprintf("SetSFTPExtensions(%q)", c.Names)
	if valid && err != nil {
		ctx.Failf("C19/config-refused", "%s failed: %v", desc, err)
	}
	if !valid && err == nil {
		ctx.Failf("C19/config-accepted", "%s contains an unsupported name but succeeded", desc)
	}
	want := before
	if valid {
		want = nil
		for _, n := range c.Names {
			want = append(want, [2]string{n, vfC19Data[n]})
		}
	}
	// what a fresh server of this kind advertises now
	var h *vfH
	root := ""
	if c.Kind == "rs" {
		h = newVfH()
	} else {
		root = vfTempDir("vfc19")
		defer os.RemoveAll(root)
	}
	srv, e := vfStartSrv(vfSrvCfg{Kind: c.Kind}, root, h)
	if e != nil {
		ctx.Failf("harness/server", "%v", e)
	}
	cl, e := sftp.NewClientPipe(srv.link.Client, srv.link.Client)
	if e != nil {
		ctx.Failf("C19/handshake-with-own-server", "a client cannot connect to the package's own server after %s: %v", desc, e)
	}
	bodies, _, _ := vfSplitFrames(srv.link.S2C.Tap())
	if len(bodies) < 1 {
		ctx.Failf("C19/no-version", "no VERSION on the wire")
	}
	ver, _, de := vfDecodeBody(bodies[0])
	if de != nil || ver.Type != vfFxpVersion || ver.Version != 3 {
		ctx.Failf("C19/version-packet", "server sent %s", vfHex(bodies[0]))
	}
	var got [][2]string
	for _, x := range ver.Exts {
		got = append(got, [2]string{string(x.Name), string(x.Data)})
	}
	if fmt.Sprint(got) != fmt.Sprint(want) {
		if !valid {
			ctx.Failf("C19/failed-config-changed-something", "after the failed %s the %s server advertises %v, before it was %v", desc, c.Kind, got, before)
		}
		ctx.Failf("C19/advertised-not-configured", "after %s the %s server advertises %v, want exactly %v", desc, c.Kind, got, want)
	}
	wantSet := map[string]string{}
	for _, w := range want {
		wantSet[w[0]] = w[1]
	}
	for _, n := range []string{vfExtHardlink, vfExtPosixRename, vfExtStatVFS, vfExtFsync, "x@y"} {
		dv, ok := cl.HasExtension(n)
		if wd, adv := wantSet[n]; adv != ok || (adv && wd != dv) {
			ctx.Failf("C19/client-reports-other-extensions", "after %s the client reports %q as (%q,%v), the server advertised %v", desc, n, dv, ok, want)
		}
	}
	// every extension the os-backed server advertises is served - as itself (seed C19-e): each advertised name
	// is exercised through the client and judged by its effect on the served directory
	if c.Kind == "os" {
		os.WriteFile(root+"/pr-old", []byte("p"), 0o644)
		os.WriteFile(root+"/hl-old", []byte("h"), 0o644)
		exists := func(n string) bool { _, err := os.Lstat(root + "/" + n); return err == nil }
		ds, rs := vfCall(func() (string, error) {
			done := map[string]bool{}
			for _, w := range want {
				if done[w[0]] {
					continue // a name may be configured (and advertised) twice
				}
				done[w[0]] = true
				switch w[0] {
				case vfExtPosixRename:
					if err := cl.PosixRename("pr-old", "pr-new"); err != nil || exists("pr-old") || !exists("pr-new") {
						return fmt.Sprintf("posix-rename: err=%v, old name exists=%v, new name exists=%v", err, exists("pr-old"), exists("pr-new")), nil
					}
				case vfExtHardlink:
					if err := cl.Link("hl-old", "hl-new"); err != nil || !exists("hl-old") || !exists("hl-new") {
						return fmt.Sprintf("hardlink: err=%v, old name exists=%v, new name exists=%v", err, exists("hl-old"), exists("hl-new")), nil
					}
				case vfExtStatVFS:
					if v, err := cl.StatVFS("."); err != nil || v == nil || v.Namemax == 0 {
						return fmt.Sprintf("statvfs: %v %v", v, err), nil
					}
				}
			}
			return "", nil
		})
		if !vfAwait(ctx, ds, "advertised extensions") {
			ctx.Failf("C19/advertised-not-served/hang", "a call of an advertised extension never returns\n%s", vfDumpRelevant())
		}
		if rs.Panic != nil {
			ctx.Failf("panic/"+vfPanicSite([]byte(rs.Stack)), "%v\n%s", rs.Panic, vfTrimStack([]byte(rs.Stack)))
		}
		if rs.Val != "" {
			ctx.Failf("C19/advertised-not-served-as-itself", "after %s the os-backed server advertises %v but %s", desc, want, rs.Val)
		}
	}
	dc, _ := vfCall(func() (string, error) { return "", cl.Close() })
	vfAwait(ctx, dc, "Close")
	if !vfAwait(ctx, srv.done, "Serve") {
		ctx.Failf("C19/serve-hangs", "Serve never returns")
	}
	vfCheckNoLeak(ctx, "C19/leak", baseline)
	if fmt.Sprint(want) != fmt.Sprint(before) || !valid {
		ctx.NonTrivial()
	}
	ctx.Class(fmt.Sprintf("valid=%v", valid))
}

// ---- (c) extended requests ----------------------------------------------------------------------------

type vfCaseC19E struct {
	Kind     string // os | rs
	Alloc    bool
	ReadOnly bool     // os server created with ReadOnly(): refusals are decided before the request is served (seed C19-b)
	Names    []string // extended request names, each followed by a STAT probe
	HOpts    vfHOpts
}

func vfRunC19E(ctx *vfCtx, c vfCaseC19E) {
	baseline := vfPkgGoroutineIDs()
	sftp.VfResetGlobals()
	ps := vfStartProg(ctx, vfSrvCfg{Kind: c.Kind, Alloc: c.Alloc, ReadOnly: c.ReadOnly, HOpts: c.HOpts}, 1, 1)
	defer ps.cleanup()
	send := func(p *vfPkt) *vfPkt {
		ps.reqs = append(ps.reqs, p)
		ps.srv.Send(p)
		if !ps.srv.AwaitReplies(ctx, len(ps.reqs)) {
			ctx.Failf("C19/session-ended", "no reply to %s: the session ended\n%s", vfPktString(p), vfDumpRelevant())
		}
		pk, _, _, _ := ps.srv.Replies()
		return pk[len(pk)-1]
	}
	pk, _, _, _ := ps.srv.Replies()
	advertised := map[string]bool{}
	for _, e := range pk[0].Exts {
		advertised[string(e.Name)] = true
	}
	for i, name := range c.Names {
		p := &vfPkt{Type: vfFxpExtended, ID: ps.id(), ExtName: []byte(name)}
		switch name {
		case vfExtStatVFS:
			p.Path = []byte("/")
		case vfExtPosixRename:
			p.Path, p.Path2 = ps.env.path(2), ps.env.path(9)
		case vfExtHardlink:
			p.Path, p.Path2 = ps.env.path(0), []byte(fmt.Sprintf("%shl%d", ps.env.prefix, i))
		case vfExtFsync:
			p.Handle = []byte("1")
		default:
			p.Raw = []byte{0, 0, 0, 1, 'x'}
		}
		rep := send(p)
		supported := name == vfExtStatVFS || name == vfExtPosixRename || name == vfExtHardlink
		unsupported := rep.Type == vfFxpStatus && rep.Code == vfFxOpUnsupported
		switch {
		case supported && c.Kind == "os" && advertised[name] && unsupported:
			ctx.Failf("C19/advertised-not-served/"+name, "the os-backed server advertises %q but answers it with operation unsupported", name)
		case !supported && !unsupported:
			ctx.Failf("C19/unknown-extended-answer", "extended request %q answered with %s, want STATUS operation unsupported", name, vfPktString(rep))
		}
		if rep.ID != p.ID {
			ctx.Failf("C19/reply-id", "extended request %q answered with id %d, want %d", name, rep.ID, p.ID)
		}
		probe := send(&vfPkt{Type: vfFxpStat, ID: ps.id(), Path: ps.env.path(1)})
		if probe.Type != vfFxpAttrs {
			ctx.Failf("C19/session-broken-after-extended", "STAT after extended request %q answered with %s", name, vfPktString(probe))
		}
		if !supported {
			ctx.NonTrivial()
		}
	}
	ps.srv.Hangup(ctx, "C19")
	vfCheckNoLeak(ctx, "C19/leak", baseline)
	ctx.Class(fmt.Sprintf("server=%s readonly=%v", c.Kind, c.ReadOnly))
}

// ---- Sync without the extension --------------------------------------------------------------------------

type vfCaseC19S struct {
	Advertise string // "" | "1" | "2" (data of fsync@openssh.com; "" = not advertised)
}

func vfRunC19S(ctx *vfCtx, c vfCaseC19S) {
	baseline := vfPkgGoroutineIDs()
	s, err := vfStartSession(vfOpts{MaxPacket: 100, Conc: 2}, func(p *vfPeer, l *vfLink) {
		if c.Advertise != "" {
			p.exts = append(p.exts, vfExt{[]byte(vfExtFsync), []byte(c.Advertise)})
		}
	})
	if err != nil {
		ctx.Failf("harness/handshake", "%v", err)
	}
	var serr error
	var before, after int
	d, r := vfCall(func() (string, error) {
		f, err := s.c.OpenFile("/victim", os.O_RDWR)
		if err != nil {
			return "", err
		}
		before = s.link.C2S.TapLen()
		serr = f.Sync()
		after = s.link.C2S.TapLen()
		return "", f.Close()
	})
	if !vfAwait(ctx, d, "Sync") {
		ctx.Failf("C19/sync-hangs", "File.Sync never returns\n%s", vfDumpRelevant())
	}
	if r.Panic != nil || r.Err != nil {
		ctx.Failf("harness/sync", "%v %v", r.Panic, r.Err)
	}
	if c.Advertise == "1" {
		if serr != nil || after == before {
			ctx.Failf("C19/sync-not-sent", "the peer advertises fsync@openssh.com=1 but Sync returned %v and wrote %d bytes", serr, after-before)
		}
	} else {
		var se *sftp.StatusError
		if !errors.As(serr, &se) || se.Code != vfFxOpUnsupported {
			ctx.Failf("C19/sync-without-extension", "the peer does not advertise fsync@openssh.com=1 (data %q) but Sync returned %v, want operation unsupported", c.Advertise, serr)
		}
		if after != before {
			ctx.Failf("C19/sync-on-the-wire", "the peer does not advertise fsync but Sync put %d bytes on the wire", after-before)
		}
	}
	ctx.NonTrivial()
	vfEndSession(ctx, "C19", s, baseline)
}

func TestVerifC19(t *testing.T) {
	t.Run("handshake", func(t *testing.T) {
		vfDriveSub(t, "handshake", vfProp[vfCaseC19H]{ID: "C19", Gen: vfGenC19H, Run: vfRunC19H})
	})
	t.Run("types", func(t *testing.T) {
		// every type byte x versions 0..5
		vfEnumerate(t, "handshake", vfProp[vfCaseC19H]{ID: "C19", Run: vfRunC19H}, func(yield func(vfCaseC19H) bool) {
			k := 0
			for tb := 0; tb < 256; tb++ {
				for _, v := range []uint32{0, 1, 2, 3, 4, 5} {
					k++
					if !vfMine(k) {
						continue
					}
					f := vfEncode(&vfPkt{Type: vfFxpVersion, Version: v, Exts: []vfExt{{[]byte("a@b"), []byte("1")}}})
					f[4] = byte(tb)
					if !yield(vfCaseC19H{Reply: f, Probe: [][]byte{[]byte("zz")}}) {
						return
					}
				}
			}
			vfSetExtra("type_version_grid", k)
		})
	})
	t.Run("config", func(t *testing.T) {
		defer vfScaleChecks(4)()
		vfDriveSub(t, "config", vfProp[vfCaseC19C]{ID: "C19", Run: vfRunC19C, Gen: func(rt *rapid.T) vfCaseC19C {
			names := rapid.SliceOfN(rapid.SampledFrom([]string{vfExtHardlink, vfExtPosixRename, vfExtStatVFS, vfExtHardlink, vfExtStatVFS, vfExtPosixRename,
				vfExtFsync, "", "statvfs@openssh.co", "Hardlink@openssh.com", "hardlink@openssh.com ", "x"}), 0, 5).Draw(rt, "names")
			return vfCaseC19C{Names: names, Kind: rapid.SampledFrom([]string{"os", "rs"}).Draw(rt, "kind")}
		}})
	})
	t.Run("extended", func(t *testing.T) {
		defer vfScaleChecks(4)()
		vfDriveSub(t, "extended", vfProp[vfCaseC19E]{ID: "C19", Run: vfRunC19E, Gen: func(rt *rapid.T) vfCaseC19E {
			cfg := vfGenSrvCfg(rt)
			vfMaybeReadOnly(rt, &cfg)
			names := rapid.SliceOfN(rapid.SampledFrom([]string{vfExtStatVFS, vfExtPosixRename, vfExtHardlink, vfExtFsync, "", "statvfs@openssh.co", "STATVFS@openssh.com",
				"statvfs@openssh.com ", " statvfs@openssh.com", "\xff\xfe", "fstatvfs@openssh.com", "lsetstat@openssh.com", "x"}), 1, 6).Draw(rt, "names")
			if rapid.IntRange(0, 20).Draw(rt, "huge") == 0 {
				names = append(names, string(bytes.Repeat([]byte("e"), 70000)))
			}
			return vfCaseC19E{Kind: cfg.Kind, Alloc: cfg.Alloc, ReadOnly: cfg.ReadOnly, Names: names, HOpts: cfg.HOpts}
		}})
	})
	t.Run("sync", func(t *testing.T) {
		vfEnumerate(t, "sync", vfProp[vfCaseC19S]{ID: "C19", Run: vfRunC19S}, func(yield func(vfCaseC19S) bool) {
			for _, a := range []string{"", "1", "2"} {
				if !yield(vfCaseC19S{Advertise: a}) {
					return
				}
			}
		})
	})
}
