package sftp_test

// C18 — the server buffer allocator is invisible.

import (
	"bytes"
	"fmt"
	"os"
	"sort"
	"testing"
	"time"
	"unsafe"

	sftp "github.com/pkg/sftp"
	"pgregory.net/rapid"
)

type vfCaseC18 struct {
	Srv     vfSrvCfg // Alloc is ignored: the stream runs against both settings
	Phases  []vfPhase
	Release []int
	Park    []string
	Sibling bool `json:",omitempty"` // a second session served with the same option values runs alongside (seed C18-d)
}

// request kinds whose outcome does not depend on how the rw workers and the
// command worker interleave: reads of files nobody writes, writes to regions
// nobody reads in the same burst, commands on paths the rw requests do not use.
var vfC18Kinds = []string{"READ", "READ", "READ", "READ", "WRITE", "WRITE", "FSTAT", "READDIR", "LSTAT", "STAT", "REALPATH", "READLINK", "MKDIR", "RMDIR",
	"SETSTAT", "REMOVE", "RENAME", "SYMLINK", "STATVFS", "POSIXRENAME", "HARDLINK", "EXTUNKNOWN", "CLOSE"}

func vfGenC18(t *rapid.T) vfCaseC18 {
	c := vfCaseC18{Srv: vfGenSrvCfg(t)}
	vfMaybeReadOnly(t, &c.Srv)
	np := rapid.IntRange(1, 2).Draw(t, "phases")
	for i := 0; i < np; i++ {
		var ph vfPhase
		if i == 0 {
			// handle 0,1: read handles on two files of distinct content; 2: write handle; 3: directory;
			// 4: read+write handle that is only read, 5: read+write handle that is only written (seed C18-b: the
			// request server serves those through a third code path when the handler implements OpenFileWriter)
			ph.Sync = []vfReq{{T: "OPEN", P: 0, Pflags: 1}, {T: "OPEN", P: 15, Pflags: 1}, {T: "OPEN", P: 8, Pflags: 0x1a}, {T: "OPENDIR", P: 1},
				{T: "OPEN", P: 0, Pflags: 3}, {T: "OPEN", P: 14, Pflags: 0x1b}}
		}
		nb := rapid.IntRange(3, 40).Draw(t, "nburst")
		if rapid.IntRange(0, 5).Draw(t, "deep") == 0 {
			nb = rapid.IntRange(66, 150).Draw(t, "nburstdeep") // more requests in flight than any fixed-size table a server might keep (seed F19)
		}
		woff, woff5 := 0, 0
		for k := 0; k < nb; k++ {
			r := vfGenReq(t, vfC18Kinds)
			switch r.T {
			case "READ":
				r.H = rapid.SampledFrom([]int{0, 0, 1, 1, 4, 4, -1}).Draw(t, "rh")
				r.Off = rapid.SampledFrom([]int{0, 1, 2, 50, 200, 299, 300}).Draw(t, "roff")
				r.Len = rapid.SampledFrom([]int{1, 3, 100, 300, 32768, 32768, 262144, 262145, 1 << 20}).Draw(t, "rlen")
				if rapid.IntRange(0, 3).Draw(t, "pageedge") == 0 {
					// within a DATA header of the page size, on the file that is longer than a page (handle 1)
					r.Len = 262144 - rapid.IntRange(0, 16).Draw(t, "edge")
				}
			case "WRITE":
				r.Len = rapid.SampledFrom([]int{1, 10, 300}).Draw(t, "wlen")
				if rapid.IntRange(0, 2).Draw(t, "wrw") == 0 {
					r.H, r.Off = 5, woff5
					woff5 += r.Len
				} else {
					r.H, r.Off = 2, woff
					woff += r.Len
				}
			case "FSTAT":
				r.H = rapid.SampledFrom([]int{0, 1, 4, -1}).Draw(t, "fh")
			case "READDIR":
				r.H = 3
			case "CLOSE":
				r.H = -1
			case "SETSTAT", "REMOVE", "RENAME", "POSIXRENAME", "HARDLINK", "MKDIR", "RMDIR", "SYMLINK", "LSTAT", "STAT", "READLINK":
				// keep commands away from the files behind the rw handles (indices 0, 8, 13) and from their directory
				fix := func(p int) int {
					for _, bad := range []int{0, 8, 13, 12, 1, 5, 6, 14, 15} {
						if p == bad {
							return 9 // new2
						}
					}
					return p
				}
				r.P, r.P2 = fix(r.P), fix(r.P2)
				r.AF &^= 1 // no size changes
			}
			ph.Burst = append(ph.Burst, r)
		}
		c.Phases = append(c.Phases, ph)
	}
	c.Release = rapid.SliceOfN(rapid.IntRange(0, 15), 1, 24).Draw(t, "release")
	c.Park = rapid.SampledFrom([][]string{{"ReadAt", "WriteAt"}, {"ReadAt"}, {"ReadAt", "WriteAt", "Filecmd"}, {}}).Draw(t, "park")
	c.Sibling = rapid.IntRange(0, 2).Draw(t, "sibling") == 0
	return c
}

type vfC18Out struct {
	stream  []byte
	pkts    []*vfPkt
	root    string
	held    int
	reused  bool
	maxUsed int
}

func vfC18FixTimes(root string) {
	t0 := time.Unix(1100000000, 0)
	for _, p := range []string{"dir/sub/x", "dir/sub", "dir/a", "dir/b", "dir", "empty", "file", "big", "."} {
		os.Chtimes(root+"/"+p, t0, t0)
	}
}

func vfC18Run(ctx *vfCtx, c *vfCaseC18, alloc bool) *vfC18Out {
	baseline := vfPkgGoroutineIDs()
	cfg := c.Srv
	cfg.Alloc = alloc
	kind := cfg.Kind
	out := &vfC18Out{}
	if c.Sibling {
		cfg.share = &vfSharedOpts{}
	}
	ps := vfStartProg(ctx, cfg, 7, 1)
	defer ps.cleanup()
	out.root = ps.root
	// the sibling session: same option values, its own connection (and its own handler set); it only reads
	var sib *vfSrv
	var sibReqs []*vfPkt
	var sibHandle []byte
	if c.Sibling {
		var h2 *vfH
		if cfg.Kind == "rs" {
			h2 = newVfH()
			vfHTree(h2)
		}
		var err error
		if sib, err = vfStartSrv(cfg, ps.root, h2); err != nil {
			ctx.Failf("harness/sibling", "%v", err)
		}
		sib.Init(ctx)
		op := &vfPkt{Type: vfFxpOpen, ID: 900000, Path: []byte(ps.env.prefix + "big"), Pflags: vfPfRead}
		sib.Send(op)
		sibReqs = append(sibReqs, &vfPkt{Type: vfFxpInit}, op)
		if !sib.AwaitReplies(ctx, 2) {
			ctx.Failf("C18/sibling/missing-replies/"+kind, "the sibling session's OPEN got no reply")
		}
		pk, _, _, _ := sib.Replies()
		if pk[1].Type != vfFxpHandle {
			ctx.Failf("harness/sibling", "sibling OPEN answered %s", vfPktString(pk[1]))
		}
		sibHandle = pk[1].Handle
	}
	sibBurst := func(n int) {
		if sib == nil {
			return
		}
		var pkts []*vfPkt
		for i := 0; i < n; i++ {
			p := &vfPkt{Type: vfFxpRead, ID: uint32(900001 + len(sibReqs)), Handle: sibHandle, Offset: uint64(977 * len(sibReqs) % 200000), Len: 1000}
			pkts = append(pkts, p)
			sibReqs = append(sibReqs, p)
		}
		sib.Send(pkts...)
	}
	sibCheck := func() {
		if sib == nil {
			return
		}
		if !sib.AwaitReplies(ctx, len(sibReqs)) {
			ctx.Failf("C18/sibling/missing-replies/"+kind, "the sibling session got %d of %d responses (alloc=%v)", sib.link.S2C.Frames(), len(sibReqs), alloc)
		}
		pk, _, _, _ := sib.Replies()
		for i := 2; i < len(sibReqs); i++ {
			off := int(sibReqs[i].Offset)
			if pk[i].Type != vfFxpData || pk[i].ID != sibReqs[i].ID || !bytes.Equal(pk[i].Data, vfBigFile[off:off+1000]) {
				ctx.Failf("C18/sibling/wrong-data/"+kind, "sibling READ %d (offset %d) answered with %s (alloc=%v)", i, off, vfPktString(pk[i]), alloc)
			}
		}
	}
	if ps.root != "" {
		vfC18FixTimes(ps.root)
	}
	used := func() (int, int) {
		var u, a int
		var ok bool
		if ps.srv.osrv != nil {
			u, a, ok = sftp.VfServerAllocUsed(ps.srv.osrv)
		} else {
			u, a, ok = sftp.VfRequestServerAllocUsed(ps.srv.rsrv)
		}
		if !ok {
			return 0, 0
		}
		return u, a
	}
	for _, ph := range c.Phases {
		for _, r := range ph.Sync {
			before := len(ps.reqs)
			p := ps.env.build(r, ps.id())
			ps.reqs = append(ps.reqs, p)
			ps.srv.Send(p)
			if !ps.srv.AwaitReplies(ctx, len(ps.reqs)) {
				ctx.Failf("C18/missing-replies/"+kind, "no reply to a synchronous %s (alloc=%v)", r.T, alloc)
			}
			ps.learn(before)
		}
		before := len(ps.reqs)
		var pkts []*vfPkt
		for _, r := range ph.Burst {
			p := ps.env.build(r, ps.id())
			pkts = append(pkts, p)
			ps.reqs = append(ps.reqs, p)
		}
		if ps.srv.h != nil && len(c.Park) > 0 {
			ps.srv.h.mu.Lock()
			for _, k := range c.Park {
				ps.srv.h.parkKinds[k] = true
			}
			ps.srv.h.mu.Unlock()
		}
		sibBurst(len(pkts)/2 + 1)
		ps.srv.Send(pkts...)
		sibBurst(len(pkts)/2 + 1)
		if ps.srv.h != nil && len(c.Park) > 0 {
			h := ps.srv.h
			k := 0
			for {
				vfSettle(ctx)
				if ps.srv.link.S2C.Frames() >= len(ps.reqs) {
					break
				}
				parked := h.Parked()
				if len(parked) == 0 {
					pk, _, _, _ := ps.srv.Replies()
					ctx.Failf("C18/missing-replies/"+kind, "server idle after %d of %d responses (alloc=%v)\n%s\n%s", len(pk), len(ps.reqs), alloc, vfExchangeDump(ps.reqs, pk), vfDumpRelevant())
				}
				// responses completed but held behind a parked earlier one
				if u, a := used(); alloc {
					if u > out.maxUsed {
						out.maxUsed = u
					}
					if a > 0 && len(parked) > 0 {
						out.reused = true
					}
				}
				if done := ps.srv.link.S2C.Frames(); len(ps.reqs)-done > len(parked) {
					out.held++
				}
				h.Release(parked[c.Release[k%len(c.Release)]%len(parked)])
				k++
			}
			h.ReleaseAll()
		}
		if !ps.srv.AwaitReplies(ctx, len(ps.reqs)) {
			pk, _, _, _ := ps.srv.Replies()
			ctx.Failf("C18/missing-replies/"+kind, "server idle after %d of %d responses (alloc=%v)\n%s\n%s", len(pk), len(ps.reqs), alloc, vfExchangeDump(ps.reqs, pk), vfDumpRelevant())
		}
		ps.learn(before)
		sibCheck()
		// quiescent with all responses delivered: only the receive buffer of the next packet may be in use
		vfSettle(ctx)
		if u, _ := used(); alloc && u > 1 {
			ctx.Failf("C18/pages-in-use/"+kind, "%d allocator pages are marked in use although all %d responses are out (at most the receive buffer of the next packet may be)", u, len(ps.reqs))
		}
	}
	vfCheckReplies(ctx, ps, kind)
	if sib != nil {
		sib.Hangup(ctx, "C18/sibling/"+kind)
	}
	ps.srv.Hangup(ctx, "C18/"+kind)
	if u, a := used(); alloc && (u != 0 || a != 0) {
		ctx.Failf("C18/not-freed/"+kind, "after Serve returned the allocator still holds %d used and %d available pages", u, a)
	}
	vfCheckNoLeak(ctx, "C18/leak/"+kind, baseline)
	out.stream = ps.srv.link.S2C.Tap()
	out.pkts, _, _, _ = ps.srv.Replies()
	return out
}

// vfC18Normalise masks what legitimately differs between two os-backed runs:
// times of files created during the run, and listing order.
func vfC18Normalise(p *vfPkt, root string) *vfPkt {
	q := *p
	if q.Attrs != nil {
		a := *q.Attrs
		a.Atime, a.Mtime = 0, 0
		if a.Perm&0o170000 == 0o120000 {
			a.Size = 0 // length of a link text that may contain the temp root
		}
		q.Attrs = &a
	}
	q.Names = nil
	for _, n := range p.Names {
		n.Attrs.Atime, n.Attrs.Mtime = 0, 0
		if n.Attrs.Perm&0o170000 == 0o120000 {
			n.Attrs.Size = 0
		}
		if n.Attrs.Flags != 0 {
			n.Long = nil
		}
		if root != "" {
			n.Name = bytes.ReplaceAll(n.Name, []byte(root), []byte("$ROOT"))
			n.Long = bytes.ReplaceAll(n.Long, []byte(root), []byte("$ROOT"))
		}
		q.Names = append(q.Names, n)
	}
	sort.Slice(q.Names, func(i, j int) bool { return bytes.Compare(q.Names[i].Name, q.Names[j].Name) < 0 })
	if q.Type == vfFxpStatus {
		q.Msg = nil // error texts carry the temp directory name
	}
	if q.Type == vfFxpExtendedReply {
		q.VFS = nil // free-block counts move
		q.Raw = nil
	}
	return &q
}

func vfRunC18(ctx *vfCtx, c vfCaseC18) {
	kind := c.Srv.Kind
	ctx.Class("server=" + kind)
	off := vfC18Run(ctx, &c, false)
	on := vfC18Run(ctx, &c, true)
	if len(off.pkts) != len(on.pkts) {
		ctx.Failf("C18/differs/"+kind, "%d responses without the allocator, %d with it", len(off.pkts), len(on.pkts))
	}
	if kind == "rs" {
		if !bytes.Equal(off.stream, on.stream) {
			at := vfDiffAt(off.stream, on.stream)
			// locate the response
			idx, pos := 0, 0
			for i, p := range off.pkts {
				l := 4 + len(vfEncodeBody(p))
				if at < pos+l {
					idx = i
					break
				}
				pos += l
			}
			ctx.Failf("C18/differs/"+kind+"/"+vfTypeName(off.pkts[idx].Type), "response streams differ at byte %d (response %d):\nwithout allocator: %s\nwith allocator:    %s", at, idx, vfPktString(off.pkts[idx]), vfPktString(on.pkts[idx]))
		}
	} else {
		for i := range off.pkts {
			a, b := vfC18Normalise(off.pkts[i], off.root), vfC18Normalise(on.pkts[i], on.root)
			if !vfPktEqual(a, b) {
				ctx.Failf("C18/differs/"+kind+"/"+vfTypeName(off.pkts[i].Type), "response %d differs:\nwithout allocator: %s\nwith allocator:    %s", i, vfPktString(a), vfPktString(b))
			}
		}
	}
	reads := 0
	for _, ph := range c.Phases {
		for _, r := range ph.Burst {
			if r.T == "READ" && r.H >= 0 {
				reads++
			}
		}
	}
	if reads >= 3 && (kind == "os" || on.held > 0) {
		ctx.NonTrivial()
	}
	if on.held > 0 {
		ctx.Class("response-held-behind-parked")
	}
	if on.reused {
		ctx.Class("pages-available-while-parked")
	}
	ctx.Class(fmt.Sprintf("maxused>=%d", (on.maxUsed/8)*8))
}

// ---- the allocator against a set model ---------------------------------------------

type vfAllocOp struct {
	Op string // get | release | free
	ID uint32
}

type vfCaseC18Model struct {
	Ops []vfAllocOp
}

func vfRunC18Model(ctx *vfCtx, c vfCaseC18Model) {
	a := sftp.VfNewAllocator()
	usedBy := map[uintptr]uint32{} // page -> order id
	perID := map[uint32][]uintptr{}
	avail := map[uintptr]bool{}
	for i, op := range c.Ops {
		switch op.Op {
		case "get":
			p := a.GetPage(op.ID)
			if len(p) != sftp.VfMaxMsgLength {
				ctx.Failf("C18/model/page-size", "op %d: page of %d bytes", i, len(p))
			}
			k := uintptr(unsafe.Pointer(&p[0]))
			if id, busy := usedBy[k]; busy {
				ctx.Failf("C18/model/double-lend", "op %d: GetPage(%d) handed out a page that request %d still uses", i, op.ID, id)
			}
			delete(avail, k)
			usedBy[k] = op.ID
			perID[op.ID] = append(perID[op.ID], k)
		case "release":
			a.ReleasePages(op.ID)
			for _, k := range perID[op.ID] {
				delete(usedBy, k)
				avail[k] = true
			}
			delete(perID, op.ID)
		case "free":
			a.Free()
			usedBy, perID, avail = map[uintptr]uint32{}, map[uint32][]uintptr{}, map[uintptr]bool{}
		}
		if a.Used() != len(usedBy) || a.Available() != len(avail) {
			ctx.Failf("C18/model/counts", "op %d %+v: allocator reports used=%d available=%d, model used=%d available=%d", i, op, a.Used(), a.Available(), len(usedBy), len(avail))
		}
		for id := range perID {
			if !a.IsUsed(id) {
				ctx.Failf("C18/model/isused", "op %d: request %d holds pages but is not marked used", i, id)
			}
		}
	}
	if len(c.Ops) >= 4 {
		ctx.NonTrivial()
	}
}

// ---- the package's own in-memory handlers ------------------------------------------------------------------
//
// The differential above serves the instrumented handler set, whose files copy what they are given. The
// package ships a handler set of its own (InMemHandler, the documented example backend); a server built on it
// must be as indifferent to the allocator as any other (seed C18-g: its files kept the request's buffer).
// Model-based: whatever was written is what every later read returns, with the allocator on and off.

type vfC18MemOp struct {
	K    string // W | R
	File int
	Off  int
	Len  int
}

type vfCaseC18Mem struct {
	Alloc bool
	Ops   []vfC18MemOp
}

func vfGenC18Mem(t *rapid.T) vfCaseC18Mem {
	c := vfCaseC18Mem{Alloc: rapid.IntRange(0, 3).Draw(t, "alloc") != 0}
	n := rapid.IntRange(2, 24).Draw(t, "n")
	for i := 0; i < n; i++ {
		op := vfC18MemOp{K: rapid.SampledFrom([]string{"W", "W", "R", "R", "R"}).Draw(t, "k"), File: rapid.IntRange(0, 3).Draw(t, "file")}
		op.Off = rapid.SampledFrom([]int{0, 0, 0, 1, 21, 22, 23, 100, 5000}).Draw(t, "off")
		op.Len = rapid.SampledFrom([]int{1, 21, 22, 23, 100, 5000, 32768}).Draw(t, "len")
		c.Ops = append(c.Ops, op)
	}
	return c
}

func vfRunC18Mem(ctx *vfCtx, c vfCaseC18Mem) {
	baseline := vfPkgGoroutineIDs()
	l := newVfLink()
	var opts []sftp.RequestServerOption
	if c.Alloc {
		opts = append(opts, sftp.WithRSAllocator())
	}
	srv := sftp.NewRequestServer(l.Server, sftp.InMemHandler(), opts...)
	served := make(chan struct{})
	go func() { defer close(served); srv.Serve() }()
	cl, err := sftp.NewClientPipe(l.Client, l.Client)
	if err != nil {
		ctx.Failf("harness/client", "%v", err)
	}
	model := map[int][]byte{}
	files := map[int]*sftp.File{}
	bad := ""
	d, res := vfCall(func() (string, error) {
		for i, op := range c.Ops {
			f := files[op.File]
			if f == nil {
				if op.K == "R" {
					continue
				}
				var err error
				if f, err = cl.OpenFile(fmt.Sprintf("/f%d", op.File), os.O_RDWR|os.O_CREATE); err != nil {
					return "", err
				}
				files[op.File] = f
			}
			switch op.K {
			case "W":
				data := vfPRFBytes(uint32(70+i), op.Off, op.Len)
				if n, err := f.WriteAt(data, int64(op.Off)); err != nil || n != op.Len {
					return "", fmt.Errorf("WriteAt: n=%d err=%v", n, err)
				}
				m := model[op.File]
				for len(m) < op.Off+op.Len {
					m = append(m, 0)
				}
				copy(m[op.Off:], data)
				model[op.File] = m
			case "R":
				m := model[op.File]
				b := make([]byte, op.Len)
				n, _ := f.ReadAt(b, int64(op.Off))
				var want []byte
				if op.Off < len(m) {
					want = m[op.Off:minInt(len(m), op.Off+op.Len)]
				}
				if n != len(want) || !bytes.Equal(b[:n], want) {
					bad = fmt.Sprintf("operation %d %+v returned %d bytes that differ from what was written to /f%d at +%d (allocator %v)", i, op, n, op.File, vfDiffAt(b[:n], want), c.Alloc)
					return "", nil
				}
			}
		}
		return "", nil
	})
	if !vfAwait(ctx, d, "in-memory session") {
		ctx.Failf("C18/inmem/hang", "the session never finishes\n%s", vfDumpRelevant())
	}
	if res.Panic != nil {
		ctx.Failf("panic/"+vfPanicSite([]byte(res.Stack)), "%v\n%s", res.Panic, vfTrimStack([]byte(res.Stack)))
	}
	if res.Err != nil {
		ctx.Failf("C18/inmem/error", "an operation on the in-memory backend failed (allocator %v): %v", c.Alloc, res.Err)
	}
	if bad != "" {
		ctx.Failf("C18/inmem/content", "%s", bad)
	}
	dc, _ := vfCall(func() (string, error) { return "", cl.Close() })
	vfAwait(ctx, dc, "Close")
	l.C2S.closeWrite()
	if !vfAwait(ctx, served, "Serve") {
		ctx.Failf("C18/inmem/serve-hangs", "Serve never returns")
	}
	vfCheckNoLeak(ctx, "C18/inmem/leak", baseline)
	ctx.Class(fmt.Sprintf("inmem alloc=%v", c.Alloc))
	if len(model) > 0 {
		ctx.NonTrivial()
	}
}

func TestVerifC18(t *testing.T) {
	t.Run("diff", func(t *testing.T) { vfDriveSub(t, "diff", vfProp[vfCaseC18]{ID: "C18", Gen: vfGenC18, Run: vfRunC18}) })
	t.Run("inmem", func(t *testing.T) {
		vfDriveSub(t, "inmem", vfProp[vfCaseC18Mem]{ID: "C18", Gen: vfGenC18Mem, Run: vfRunC18Mem})
	})
	t.Run("model", func(t *testing.T) {
		defer vfScaleChecks(1)()
		vfDriveSub(t, "model", vfProp[vfCaseC18Model]{ID: "C18", Run: vfRunC18Model, Gen: func(rt *rapid.T) vfCaseC18Model {
			var c vfCaseC18Model
			n := rapid.IntRange(1, 40).Draw(rt, "n")
			for i := 0; i < n; i++ {
				op := vfAllocOp{Op: rapid.SampledFrom([]string{"get", "get", "get", "release", "release", "free"}).Draw(rt, "op"), ID: uint32(rapid.IntRange(0, 5).Draw(rt, "id"))}
				if op.Op == "free" && rapid.IntRange(0, 3).Draw(rt, "rarefree") != 0 {
					op.Op = "release"
				}
				c.Ops = append(c.Ops, op)
			}
			return c
		}})
	})
}
