package sftp_test

// vf_gen_test.go — shared generators and reference conversions.

import (
	"bytes"
	"encoding/json"
	"os"
	"syscall"
	"time"

	sftp "github.com/pkg/sftp"
	"pgregory.net/rapid"
)

func vfGenU32(t *rapid.T, label string) uint32 {
	if rapid.IntRange(0, 2).Draw(t, label+"?") == 0 {
		return rapid.SampledFrom([]uint32{0, 1, 2, 255, 256, 1<<31 - 1, 1 << 31, 1<<32 - 1}).Draw(t, label)
	}
	return rapid.Uint32().Draw(t, label)
}

func vfGenU64(t *rapid.T, label string) uint64 {
	if rapid.IntRange(0, 2).Draw(t, label+"?") == 0 {
		return rapid.SampledFrom([]uint64{0, 1, 1<<32 - 1, 1 << 32, 1<<32 + 1, 1<<63 - 1, 1 << 63, 1<<64 - 1}).Draw(t, label)
	}
	return rapid.Uint64().Draw(t, label)
}

// vfGenStr draws a wire string: empty / short ASCII / non-UTF-8 / occasionally long.
func vfGenStr(t *rapid.T, label string, allowLong bool) []byte {
	k := rapid.IntRange(0, 19).Draw(t, label+"k")
	switch {
	case k < 2:
		return nil
	case k < 11:
		return []byte(rapid.StringMatching(`[a-zA-Z0-9/._ -]{1,12}`).Draw(t, label))
	case k < 15:
		return rapid.SliceOfN(rapid.Byte(), 1, 24).Draw(t, label)
	case k < 17:
		return []byte(rapid.SampledFrom([]string{"\xff\xfe", "héllo wörld", "日本語", "\x00", "a\x00b", "/", "..", "."}).Draw(t, label))
	case k < 19 || !allowLong:
		return rapid.SliceOfN(rapid.Byte(), 25, 300).Draw(t, label)
	default:
		n := rapid.SampledFrom([]int{1000, 4096, 65535, 65536, 70000}).Draw(t, label+"n")
		b := make([]byte, n)
		seed := rapid.Byte().Draw(t, label+"s")
		for i := range b {
			b[i] = seed + byte(i*7)
		}
		return b
	}
}

func vfGenPayload(t *rapid.T, label string, max int) []byte {
	k := rapid.IntRange(0, 9).Draw(t, label+"k")
	var n int
	switch {
	case k == 0:
		n = 0
	case k < 6:
		n = rapid.IntRange(1, 64).Draw(t, label+"n")
	case k < 9:
		n = rapid.IntRange(65, 4096).Draw(t, label+"n")
	default:
		n = rapid.IntRange(4097, max).Draw(t, label+"n")
	}
	seed := rapid.Byte().Draw(t, label+"s")
	b := make([]byte, n)
	for i := range b {
		b[i] = seed ^ byte(i) ^ byte(i>>8)
	}
	if n == 0 {
		return nil
	}
	return b
}

var vfAttrFlagBits = []uint32{vfAttrSize, vfAttrUIDGID, vfAttrPermissions, vfAttrACModTime, vfAttrExtended}

func vfAttrFlagsFromIndex(i int) uint32 {
	var f uint32
	for b := 0; b < 5; b++ {
		if i&(1<<b) != 0 {
			f |= vfAttrFlagBits[b]
		}
	}
	return f
}

func vfGenExts(t *rapid.T, label string, max int) []vfExt {
	n := rapid.IntRange(0, max).Draw(t, label+"n")
	var out []vfExt
	for i := 0; i < n; i++ {
		out = append(out, vfExt{Name: vfGenStr(t, label+"name", false), Data: vfGenStr(t, label+"data", false)})
	}
	return out
}

func vfGenAttrsWithFlags(t *rapid.T, label string, flags uint32) *vfAttrs {
	a := &vfAttrs{Flags: flags}
	if flags&vfAttrSize != 0 {
		a.Size = vfGenU64(t, label+"size")
	}
	if flags&vfAttrUIDGID != 0 {
		a.UID = vfGenU32(t, label+"uid")
		a.GID = vfGenU32(t, label+"gid")
	}
	if flags&vfAttrPermissions != 0 {
		a.Perm = vfGenU32(t, label+"perm")
	}
	if flags&vfAttrACModTime != 0 {
		a.Atime = vfGenU32(t, label+"atime")
		a.Mtime = vfGenU32(t, label+"mtime")
	}
	if flags&vfAttrExtended != 0 {
		a.Ext = vfGenExts(t, label+"ext", 5)
	}
	return a
}

func vfGenAttrs(t *rapid.T, label string) *vfAttrs {
	flags := vfAttrFlagsFromIndex(rapid.IntRange(0, 31).Draw(t, label+"flags"))
	if rapid.IntRange(0, 15).Draw(t, label+"unk") == 0 {
		flags |= rapid.SampledFrom([]uint32{0x10, 0x40000000, 0x100}).Draw(t, label+"unkbit")
	}
	return vfGenAttrsWithFlags(t, label, flags)
}

// ---- FileInfo descriptions (the domain of the wire codec's response side) ----

type vfFI struct {
	Name     []byte
	Size     int64
	Mode     uint32 // os.FileMode bits
	Mtime    int64  // unix seconds
	HasOwner bool
	UID, GID uint32
	Ext      []vfExt
	// Sys() returns a *syscall.Stat_t carrying these (what a handler that wraps real os.FileInfos hands
	// out); the FileInfoUidGid callbacks, when present, take precedence over it (seed C10-d)
	SysStat    bool   `json:",omitempty"`
	SUID, SGID uint32 `json:",omitempty"`
	Nlink      uint64 `json:",omitempty"`
}

type vfFileInfo struct{ d vfFI }

func (f *vfFileInfo) Name() string       { return string(f.d.Name) }
func (f *vfFileInfo) Size() int64        { return f.d.Size }
func (f *vfFileInfo) Mode() os.FileMode  { return os.FileMode(f.d.Mode) }
func (f *vfFileInfo) ModTime() time.Time { return time.Unix(f.d.Mtime, 0) }
func (f *vfFileInfo) IsDir() bool        { return f.Mode().IsDir() }
func (f *vfFileInfo) Sys() any {
	if f.d.SysStat {
		return &syscall.Stat_t{Uid: f.d.SUID, Gid: f.d.SGID, Nlink: f.d.Nlink}
	}
	return nil
}

type vfFileInfoExt struct{ vfFileInfo }

func vfStatExt(ext []vfExt) []sftp.StatExtended {
	var out []sftp.StatExtended
	for _, e := range ext {
		out = append(out, sftp.StatExtended{ExtType: string(e.Name), ExtData: string(e.Data)})
	}
	return out
}

func (f *vfFileInfoExt) Extended() []sftp.StatExtended { return vfStatExt(f.d.Ext) }

type vfFileInfoOwner struct{ vfFileInfo }

type vfFileInfoOwnerExt struct{ vfFileInfoOwner }

func (f *vfFileInfoOwnerExt) Extended() []sftp.StatExtended { return vfStatExt(f.d.Ext) }

func (f *vfFileInfoOwner) Uid() uint32 { return f.d.UID }
func (f *vfFileInfoOwner) Gid() uint32 { return f.d.GID }

func (d vfFI) FileInfo() os.FileInfo {
	switch {
	case d.HasOwner && len(d.Ext) > 0:
		return &vfFileInfoOwnerExt{vfFileInfoOwner{vfFileInfo{d}}}
	case d.HasOwner:
		return &vfFileInfoOwner{vfFileInfo{d}}
	case len(d.Ext) > 0:
		return &vfFileInfoExt{vfFileInfo{d}}
	}
	return &vfFileInfo{d}
}

// vfOSModeTypes lists the seven "one type" os.FileMode type patterns.
var vfOSModeTypes = []os.FileMode{0, os.ModeDir, os.ModeSymlink, os.ModeNamedPipe, os.ModeSocket, os.ModeDevice, os.ModeDevice | os.ModeCharDevice}

// vfRefFromFileMode: os.FileMode -> POSIX st_mode word, written from the
// os.FileMode documentation and POSIX <sys/stat.h> (S_IF* values), not from stat.go.
func vfRefFromFileMode(m os.FileMode) uint32 {
	w := uint32(m & 0o777)
	switch {
	case m&os.ModeDir != 0:
		w |= 0o040000
	case m&os.ModeSymlink != 0:
		w |= 0o120000
	case m&os.ModeNamedPipe != 0:
		w |= 0o010000
	case m&os.ModeSocket != 0:
		w |= 0o140000
	case m&os.ModeDevice != 0 && m&os.ModeCharDevice != 0:
		w |= 0o020000
	case m&os.ModeDevice != 0:
		w |= 0o060000
	default:
		w |= 0o100000
	}
	if m&os.ModeSetuid != 0 {
		w |= 0o4000
	}
	if m&os.ModeSetgid != 0 {
		w |= 0o2000
	}
	if m&os.ModeSticky != 0 {
		w |= 0o1000
	}
	return w
}

// vfRefToFileMode: POSIX st_mode word -> os.FileMode.
func vfRefToFileMode(w uint32) os.FileMode {
	m := os.FileMode(w & 0o777)
	switch w & 0o170000 {
	case 0o040000:
		m |= os.ModeDir
	case 0o120000:
		m |= os.ModeSymlink
	case 0o010000:
		m |= os.ModeNamedPipe
	case 0o140000:
		m |= os.ModeSocket
	case 0o020000:
		m |= os.ModeDevice | os.ModeCharDevice
	case 0o060000:
		m |= os.ModeDevice
	}
	if w&0o4000 != 0 {
		m |= os.ModeSetuid
	}
	if w&0o2000 != 0 {
		m |= os.ModeSetgid
	}
	if w&0o1000 != 0 {
		m |= os.ModeSticky
	}
	return m
}

// vfRefLsMode renders a POSIX mode word the way `ls -l` does.
func vfRefLsMode(w uint32) string {
	b := []byte("?---------")
	switch w & 0o170000 {
	case 0o100000:
		b[0] = '-'
	case 0o040000:
		b[0] = 'd'
	case 0o120000:
		b[0] = 'l'
	case 0o060000:
		b[0] = 'b'
	case 0o020000:
		b[0] = 'c'
	case 0o010000:
		b[0] = 'p'
	case 0o140000:
		b[0] = 's'
	}
	const rwx = "rwxrwxrwx"
	for i := 0; i < 9; i++ {
		if w&(1<<uint(8-i)) != 0 {
			b[1+i] = rwx[i]
		}
	}
	special := func(pos int, bit uint32, lo, up byte) {
		if w&bit != 0 {
			if b[pos] == 'x' {
				b[pos] = lo
			} else {
				b[pos] = up
			}
		}
	}
	special(3, 0o4000, 's', 'S')
	special(6, 0o2000, 's', 'S')
	special(9, 0o1000, 't', 'T')
	return string(b)
}

func vfGenOSMode(t *rapid.T, label string) uint32 {
	typ := rapid.SampledFrom(vfOSModeTypes).Draw(t, label+"type")
	perm := os.FileMode(rapid.IntRange(0, 0o777).Draw(t, label+"perm"))
	var sp os.FileMode
	s := rapid.IntRange(0, 7).Draw(t, label+"special")
	if s&1 != 0 {
		sp |= os.ModeSetuid
	}
	if s&2 != 0 {
		sp |= os.ModeSetgid
	}
	if s&4 != 0 {
		sp |= os.ModeSticky
	}
	return uint32(typ | perm | sp)
}

func vfGenFI(t *rapid.T, label string) vfFI {
	d := vfFI{
		Name:  vfGenStr(t, label+"name", false),
		Size:  int64(vfGenU64(t, label+"size") >> 1),
		Mode:  vfGenOSMode(t, label+"mode"),
		Mtime: int64(vfGenU32(t, label+"mtime")),
	}
	if rapid.Bool().Draw(t, label+"owner") {
		d.HasOwner = true
		d.UID = vfGenU32(t, label+"uid")
		d.GID = vfGenU32(t, label+"gid")
	}
	if rapid.IntRange(0, 3).Draw(t, label+"hasext") == 0 {
		d.Ext = vfGenExts(t, label+"ext", 3)
	}
	if rapid.IntRange(0, 2).Draw(t, label+"sysstat") == 0 {
		d.SysStat = true
		d.SUID, d.SGID = vfGenU32(t, label+"suid"), vfGenU32(t, label+"sgid")
		d.Nlink = uint64(rapid.IntRange(0, 70000).Draw(t, label+"nlink"))
	}
	return d
}

// vfAttrsOfFI is the attribute block a served FileInfo must produce on the wire
// (draft §5 + the package's documented choice of flags: size, permissions and
// times always; owner when known; extended when present; atime = mtime).
func vfAttrsOfFI(d vfFI) vfAttrs {
	a := vfAttrs{Flags: vfAttrSize | vfAttrPermissions | vfAttrACModTime}
	a.Size = uint64(d.Size)
	a.Perm = vfRefFromFileMode(os.FileMode(d.Mode))
	a.Mtime = uint32(d.Mtime)
	a.Atime = uint32(d.Mtime)
	if d.HasOwner {
		a.Flags |= vfAttrUIDGID
		a.UID, a.GID = d.UID, d.GID
	} else if d.SysStat {
		a.Flags |= vfAttrUIDGID
		a.UID, a.GID = d.SUID, d.SGID
	}
	if len(d.Ext) > 0 {
		a.Flags |= vfAttrExtended
		a.Ext = d.Ext
	}
	return a
}

// ---- normalisation / comparison ------------------------------------------------

func vfNormAttrs(a *vfAttrs) *vfAttrs {
	if a == nil {
		return &vfAttrs{}
	}
	n := &vfAttrs{Flags: a.Flags}
	if a.Flags&vfAttrSize != 0 {
		n.Size = a.Size
	}
	if a.Flags&vfAttrUIDGID != 0 {
		n.UID, n.GID = a.UID, a.GID
	}
	if a.Flags&vfAttrPermissions != 0 {
		n.Perm = a.Perm
	}
	if a.Flags&vfAttrACModTime != 0 {
		n.Atime, n.Mtime = a.Atime, a.Mtime
	}
	if a.Flags&vfAttrExtended != 0 {
		for _, e := range a.Ext {
			n.Ext = append(n.Ext, vfExt{Name: vfNB(e.Name), Data: vfNB(e.Data)})
		}
	}
	return n
}

func vfNB(b []byte) []byte {
	if len(b) == 0 {
		return nil
	}
	return b
}

// vfNorm canonicalises a packet so that two descriptions of the same logical
// packet compare equal as JSON.
func vfNorm(p *vfPkt) *vfPkt {
	n := *p
	n.Path, n.Path2, n.Handle, n.Data, n.Msg, n.Lang, n.ExtName, n.Raw = vfNB(p.Path), vfNB(p.Path2), vfNB(p.Handle), vfNB(p.Data), vfNB(p.Msg), vfNB(p.Lang), vfNB(p.ExtName), vfNB(p.Raw)
	n.Exts = nil
	for _, e := range p.Exts {
		n.Exts = append(n.Exts, vfExt{Name: vfNB(e.Name), Data: vfNB(e.Data)})
	}
	switch p.Type {
	case vfFxpOpen, vfFxpSetstat, vfFxpFsetstat, vfFxpMkdir, vfFxpAttrs:
		n.Attrs = vfNormAttrs(p.Attrs)
	default:
		n.Attrs = nil
	}
	n.Names = nil
	for _, e := range p.Names {
		n.Names = append(n.Names, vfName{Name: vfNB(e.Name), Long: vfNB(e.Long), Attrs: *vfNormAttrs(&e.Attrs)})
	}
	if len(p.VFS) == 0 {
		n.VFS = nil
	}
	return &n
}

func vfPktEqual(a, b *vfPkt) bool {
	ja, _ := json.Marshal(vfNorm(a))
	jb, _ := json.Marshal(vfNorm(b))
	return bytes.Equal(ja, jb)
}

func vfPktString(p *vfPkt) string {
	j, _ := json.Marshal(vfNorm(p))
	if len(j) > 600 {
		return string(j[:600]) + "..."
	}
	return string(j)
}

func vfHex(b []byte) string {
	const hexd = "0123456789abcdef"
	if len(b) > 96 {
		return vfHex(b[:96]) + "...(" + itoa(len(b)) + " bytes)"
	}
	out := make([]byte, 0, 2*len(b))
	for _, c := range b {
		out = append(out, hexd[c>>4], hexd[c&15])
	}
	return string(out)
}

func itoa(n int) string {
	b, _ := json.Marshal(n)
	return string(b)
}

// vfDiffAt returns the first differing offset of two byte strings.
func vfDiffAt(a, b []byte) int {
	n := len(a)
	if len(b) < n {
		n = len(b)
	}
	for i := 0; i < n; i++ {
		if a[i] != b[i] {
			return i
		}
	}
	if len(a) != len(b) {
		return n
	}
	return -1
}
