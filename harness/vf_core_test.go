package sftp_test

// vf_core_test.go — property framework shared by every check.
//
// A property is (generator, interpreter). The generator draws a complete case
// as a JSON-serialisable value; the interpreter runs it against pkg/sftp and
// reports failures through *vfCtx. Splitting the two gives journaling (the
// case is on disk before it runs, so a process-fatal crash leaves the input
// behind), replay without the library, distinct-case hashing and samples.

import (
	"encoding/json"
	"flag"
	"fmt"
	"hash/fnv"
	"os"
	"path/filepath"
	"runtime"
	"runtime/debug"
	"sort"
	"strconv"
	"strings"
	"sync"
	"testing"
	"time"

	"pgregory.net/rapid"
)

var (
	vfFlagReplay = flag.String("vf.replay", "", "replay file (JSON) to run instead of generating")
	vfFlagOut    = flag.String("vf.out", "", "directory for journal / failure / stats of this shard")
	vfFlagTier   = flag.String("vf.tier", "quick", "quick|thorough")
	vfFlagKnown  = flag.String("vf.known", "", "known_findings.json")
	vfFlagShard  = flag.Int("vf.shard", 0, "shard index")
	vfFlagShards = flag.Int("vf.shards", 1, "number of shards")
)

func vfThorough() bool { return *vfFlagTier == "thorough" }

// vfFailure is what an interpreter raises.
type vfFailure struct {
	Key string // stable identification of the failing site (known-findings key)
	Msg string
	// AltSub/AltCase, when set, replace the case in the replay file: an
	// enumerating sub-check reports the single failing input as a case of
	// the corresponding single-input sub-check.
	AltSub  string
	AltCase any
}

func (f *vfFailure) Error() string { return f.Key + ": " + f.Msg }

type vfCtx struct {
	classes    []string
	nontrivial bool
	replay     bool
	notes      []string
}

// Class labels the running case (generator-health histogram).
func (c *vfCtx) Class(label string) { c.classes = append(c.classes, label) }

// NonTrivial marks the running case as non-trivial by the property's rule.
func (c *vfCtx) NonTrivial() { c.nontrivial = true }

func (c *vfCtx) Notef(format string, args ...any) {
	if len(c.notes) < 200 {
		c.notes = append(c.notes, fmt.Sprintf(format, args...))
	}
}

// Failf aborts the case with a violation.
func (c *vfCtx) Failf(key, format string, args ...any) {
	panic(&vfFailure{Key: key, Msg: fmt.Sprintf(format, args...)})
}

// FailAlt is Failf with a replacement (smaller) replay case.
func (c *vfCtx) FailAlt(altSub string, altCase any, key, format string, args ...any) {
	panic(&vfFailure{Key: key, Msg: fmt.Sprintf(format, args...), AltSub: altSub, AltCase: altCase})
}

// vfInconclusive aborts the case without a verdict (exit 2 in the driver).
func (c *vfCtx) Inconclusivef(format string, args ...any) {
	panic(&vfFailure{Key: "INCONCLUSIVE", Msg: fmt.Sprintf(format, args...)})
}

type vfProp[C any] struct {
	ID  string
	Gen func(*rapid.T) C
	Run func(*vfCtx, C)
}

type vfReplayFile struct {
	Property string          `json:"property"`
	Key      string          `json:"key"`
	Msg      string          `json:"msg"`
	Sub      string          `json:"sub,omitempty"`
	Case     json.RawMessage `json:"case"`
}

// ---- statistics ------------------------------------------------------------

type vfStats struct {
	mu          sync.Mutex
	Evaluations int            `json:"evaluations"`
	NonTrivial  int            `json:"nontrivial_executions"`
	Classes     map[string]int `json:"classes"`
	Samples     []any          `json:"samples"`
	Extra       map[string]any `json:"extra,omitempty"`
	hashes      map[uint64]struct{}
	lastSample  json.RawMessage
}

func newVfStats() *vfStats {
	return &vfStats{Classes: map[string]int{}, hashes: map[uint64]struct{}{}, Extra: map[string]any{}}
}

var vfGlobalStats = newVfStats()

func vfHash(b []byte) uint64 {
	h := fnv.New64a()
	h.Write(b)
	return h.Sum64()
}

func (s *vfStats) record(ctx *vfCtx, sub string, data []byte) {
	s.mu.Lock()
	defer s.mu.Unlock()
	s.Evaluations++
	seen := map[string]bool{}
	for _, c := range ctx.classes {
		if !seen[c] {
			seen[c] = true
			s.Classes[c]++
		}
	}
	if ctx.nontrivial {
		s.NonTrivial++
		h := vfHash(append([]byte(sub+"\x00"), data...))
		if _, ok := s.hashes[h]; !ok {
			s.hashes[h] = struct{}{}
			n := len(s.hashes)
			// keep samples at 1st, 10th, 100th, ... distinct non-trivial case, small ones only
			if len(data) <= 6000 && (n == 1 || n == 7 || n == 50 || n == 400 || n == 3000) && len(s.Samples) < 5 {
				s.Samples = append(s.Samples, vfSample(sub, data, ctx))
			}
			if len(data) <= 6000 {
				s.lastSample, _ = json.Marshal(vfSample(sub, data, ctx))
			}
		}
	}
}

func vfSample(sub string, data []byte, ctx *vfCtx) any {
	m := map[string]any{"case": json.RawMessage(data)}
	if sub != "" {
		m["sub"] = sub
	}
	if len(ctx.classes) > 0 {
		cl := append([]string(nil), ctx.classes...)
		sort.Strings(cl)
		if len(cl) > 24 {
			cl = cl[:24]
		}
		m["classes"] = cl
	}
	return m
}

// AddExtra accumulates a named counter in the evidence.
func vfAddExtra(name string, n int) {
	s := vfGlobalStats
	s.mu.Lock()
	defer s.mu.Unlock()
	cur, _ := s.Extra[name].(int)
	s.Extra[name] = cur + n
}

func vfSetExtra(name string, v any) {
	s := vfGlobalStats
	s.mu.Lock()
	defer s.mu.Unlock()
	s.Extra[name] = v
}

func (s *vfStats) flush() {
	if *vfFlagOut == "" {
		return
	}
	s.mu.Lock()
	defer s.mu.Unlock()
	hs := make([]string, 0, len(s.hashes))
	for h := range s.hashes {
		hs = append(hs, fmt.Sprintf("%016x", h))
	}
	sort.Strings(hs)
	samples := append([]any(nil), s.Samples...)
	if s.lastSample != nil && len(samples) < 6 {
		samples = append(samples, s.lastSample)
	}
	out := map[string]any{
		"evaluations":           s.Evaluations,
		"nontrivial_executions": s.NonTrivial,
		"classes":               s.Classes,
		"samples":               samples,
		"extra":                 s.Extra,
		"hashes":                hs,
	}
	b, _ := json.Marshal(out)
	os.WriteFile(filepath.Join(*vfFlagOut, "stats.json"), b, 0o644)
}

// ---- journal ---------------------------------------------------------------

var vfJournalFile *os.File

// The watchdog turns a wedged harness (a call into the package that never returns and was not wrapped in
// vfAwait) into a prompt "no verdict": when no case or enumerated element has started for vfWedgeAfter the
// process dumps its goroutines and exits 4, which the driver reports as inconclusive. It decides nothing
// about the code under test.
const vfWedgeAfter = 5 * time.Minute

var (
	vfBeatMu    sync.Mutex
	vfBeatTimer *time.Timer
)

// vfBeat re-arms the watchdog. A timer, not a sleeping goroutine: the quiescence oracle looks at every
// goroutine of the process, and one that sleeps would never let it see a hang.
func vfBeat() {
	vfBeatMu.Lock()
	defer vfBeatMu.Unlock()
	if vfBeatTimer == nil {
		vfBeatTimer = time.AfterFunc(vfWedgeAfter, func() {
			buf := make([]byte, 1<<20)
			fmt.Fprintf(os.Stderr, "VFWEDGED: no case started for %v\n%s\n", vfWedgeAfter, buf[:runtime.Stack(buf, true)])
			os.Exit(4)
		})
		return
	}
	vfBeatTimer.Reset(vfWedgeAfter)
}

func vfJournal(prop, sub string, data []byte) {
	vfBeat()
	if *vfFlagOut == "" {
		return
	}
	if vfJournalFile == nil {
		f, err := os.OpenFile(filepath.Join(*vfFlagOut, "journal.json"), os.O_CREATE|os.O_RDWR|os.O_TRUNC, 0o644)
		if err != nil {
			return
		}
		vfJournalFile = f
	}
	rf := vfReplayFile{Property: prop, Key: "CRASH", Msg: "journaled before execution", Sub: sub, Case: data}
	b, _ := json.Marshal(rf)
	vfJournalFile.Truncate(0)
	vfJournalFile.WriteAt(b, 0)
}

func vfWriteFail(prop, sub string, f *vfFailure, data []byte, ctx *vfCtx) {
	if *vfFlagOut == "" {
		return
	}
	if f.AltCase != nil {
		if b, err := json.Marshal(f.AltCase); err == nil {
			data, sub = b, f.AltSub
		}
	}
	rf := map[string]any{"property": prop, "key": f.Key, "msg": f.Msg, "sub": sub, "case": json.RawMessage(data)}
	if ctx != nil && len(ctx.notes) > 0 {
		rf["notes"] = ctx.notes
	}
	b, _ := json.MarshalIndent(rf, "", " ")
	os.WriteFile(filepath.Join(*vfFlagOut, "fail.json"), b, 0o644)
}

// ---- known findings --------------------------------------------------------

type vfKnownEntry struct {
	Property string `json:"property"`
	Key      string `json:"key"`
	Status   string `json:"status"` // "known" | "fixed"
	What     string `json:"what"`
	Commit   string `json:"commit,omitempty"`
	Replay   string `json:"replay,omitempty"`
}

var (
	vfKnownOnce sync.Once
	vfKnownSet  map[string]bool
)

// vfKnown reports whether key is listed as a known (unrepaired) finding;
// generators use it to exclude the triggering shape by construction.
func vfKnown(key string) bool {
	vfKnownOnce.Do(func() {
		vfKnownSet = map[string]bool{}
		if *vfFlagKnown == "" {
			return
		}
		b, err := os.ReadFile(*vfFlagKnown)
		if err != nil {
			return
		}
		var doc struct {
			Findings []vfKnownEntry `json:"findings"`
		}
		if json.Unmarshal(b, &doc) != nil {
			return
		}
		for _, e := range doc.Findings {
			if e.Status == "known" {
				vfKnownSet[e.Key] = true
			}
		}
	})
	return vfKnownSet[key]
}

// ---- running ---------------------------------------------------------------

// vfProtect runs fn and converts a vfFailure panic (or any other panic in the
// calling goroutine) into a *vfFailure.
func vfProtect(fn func()) (fail *vfFailure) {
	defer func() {
		if r := recover(); r != nil {
			if f, ok := r.(*vfFailure); ok {
				fail = f
				return
			}
			fail = &vfFailure{Key: "panic/" + vfPanicSite(debug.Stack()), Msg: fmt.Sprintf("panic: %v\n%s", r, vfTrimStack(debug.Stack()))}
		}
	}()
	fn()
	return nil
}

// vfPanicSite returns the first pkg/sftp (non-harness) function on the stack.
func vfPanicSite(stack []byte) string {
	lines := strings.Split(string(stack), "\n")
	afterPanic := false
	for _, l := range lines {
		if strings.HasPrefix(l, "panic(") {
			afterPanic = true
			continue
		}
		if !afterPanic {
			continue
		}
		if strings.HasPrefix(l, "github.com/pkg/sftp") && !strings.HasPrefix(l, "github.com/pkg/sftp_test.") &&
			!strings.Contains(l, ".vf") && !strings.Contains(l, ".Vf") {
			if i := strings.LastIndex(l, "("); i > 0 {
				l = l[:i]
			}
			l = strings.TrimPrefix(l, "github.com/pkg/sftp/internal/encoding/ssh/")
			l = strings.TrimPrefix(l, "github.com/pkg/sftp.")
			return l
		}
	}
	return "unknown"
}

func vfTrimStack(stack []byte) string {
	s := string(stack)
	if len(s) > 3000 {
		s = s[:3000] + "..."
	}
	return s
}

// vfExec runs one case (journal, protect, stats) and returns its failure.
func vfExec[C any](p vfProp[C], sub string, c C, replay bool) (*vfFailure, []byte, *vfCtx) {
	data, err := json.Marshal(c)
	if err != nil {
		panic(fmt.Sprintf("vf: case of %s not serialisable: %v", p.ID, err))
	}
	vfBeat()
	if !replay {
		vfJournal(p.ID, sub, data)
	}
	ctx := &vfCtx{replay: replay}
	f := vfProtect(func() { p.Run(ctx, c) })
	vfGlobalStats.record(ctx, sub, data)
	return f, data, ctx
}

// vfDrive is the body of every TestVerifCxx that has one generated property.
func vfDrive[C any](t *testing.T, p vfProp[C]) {
	vfDriveSub(t, "", p)
}

// vfDriveSub runs property p as sub-check `sub` of its property id. In replay
// mode it only runs when the replay file names the same sub.
func vfDriveSub[C any](t *testing.T, sub string, p vfProp[C]) {
	if *vfFlagReplay != "" {
		rf, err := vfLoadReplay(*vfFlagReplay)
		if err != nil {
			t.Fatalf("vf: cannot load replay: %v", err)
		}
		if rf.Sub != sub {
			return
		}
		var c C
		if err := json.Unmarshal(rf.Case, &c); err != nil {
			t.Fatalf("vf: replay case does not decode: %v", err)
		}
		f, _, _ := vfExec(p, sub, c, true)
		if f != nil {
			fmt.Printf("VFFAIL property=%s key=%s\n%s\n", p.ID, f.Key, f.Msg)
			t.Fail()
		} else {
			fmt.Printf("VFPASS property=%s\n", p.ID)
		}
		return
	}
	defer vfGlobalStats.flush()
	rapid.Check(t, func(rt *rapid.T) {
		c := p.Gen(rt)
		f, data, ctx := vfExec(p, sub, c, false)
		if f != nil {
			vfWriteFail(p.ID, sub, f, data, ctx)
			rt.Fatalf("VFFAIL property=%s key=%s: %s", p.ID, f.Key, f.Msg)
		}
	})
}

// vfEnumerate runs an exhaustive (non-generated) family of cases through the
// same journaling / statistics path. It stops at the first failure.
func vfEnumerate[C any](t *testing.T, sub string, p vfProp[C], cases func(yield func(C) bool)) {
	if *vfFlagReplay != "" {
		vfDriveSub(t, sub, p)
		return
	}
	defer vfGlobalStats.flush()
	failed := false
	cases(func(c C) bool {
		f, data, ctx := vfExec(p, sub, c, false)
		if f != nil {
			vfWriteFail(p.ID, sub, f, data, ctx)
			t.Errorf("VFFAIL property=%s key=%s: %s", p.ID, f.Key, f.Msg)
			failed = true
			return false
		}
		return true
	})
	_ = failed
}

func vfLoadReplay(path string) (*vfReplayFile, error) {
	b, err := os.ReadFile(path)
	if err != nil {
		return nil, err
	}
	var rf vfReplayFile
	if err := json.Unmarshal(b, &rf); err != nil {
		return nil, err
	}
	return &rf, nil
}

// vfShardOf tells exhaustive enumerations which slice of the space belongs to
// this shard.
func vfMine(i int) bool {
	if *vfFlagShards <= 1 {
		return true
	}
	return i%*vfFlagShards == *vfFlagShard
}

// ---- small helpers ----------------------------------------------------------

// vfScaleChecks divides -rapid.checks for an expensive sub-check; call the
// returned function to restore it.
func vfScaleChecks(div int) func() {
	f := flag.Lookup("rapid.checks")
	if f == nil {
		return func() {}
	}
	old := f.Value.String()
	n, _ := strconv.Atoi(old)
	n = n / div
	if n < 1 {
		n = 1
	}
	flag.Set("rapid.checks", strconv.Itoa(n))
	return func() { flag.Set("rapid.checks", old) }
}

func vfStack() []byte { return debug.Stack() }

func vfMustJSON(v any) []byte {
	b, err := json.Marshal(v)
	if err != nil {
		panic(err)
	}
	return b
}

func vfDeadline(d time.Duration) <-chan time.Time { return time.After(d) }

func vfTempDir(prefix string) string {
	base := os.Getenv("VF_SCRATCH")
	if base == "" {
		base = os.TempDir()
	}
	d, err := os.MkdirTemp(base, prefix)
	if err != nil {
		panic(err)
	}
	return d
}
