package sftp_test

// C16 — a directory listing returns every entry exactly once.

import (
	"context"
	"fmt"
	"os"
	"path"
	"sort"
	"strings"
	"sync/atomic"
	"syscall"
	"testing"
	"time"

	sftp "github.com/pkg/sftp"
	"pgregory.net/rapid"
)

type vfLsEntry struct {
	Name  []byte
	Size  int64
	Perm  uint32
	Mtime int64
	Ext   []vfExt `json:",omitempty"` // extended attributes reported by the lister (request server)
	Wraps bool    `json:",omitempty"` // the entry wraps a real file: Sys() is a *syscall.Stat_t with another owner, which the callbacks override (seed C16-d)
}

// vfMemInfoExt is a listed entry that also reports extended attributes.
type vfMemInfoExt struct {
	vfMemInfo
	ext []vfExt
}

func (i vfMemInfoExt) Extended() []sftp.StatExtended { return vfStatExt(i.ext) }

type vfCaseC16 struct {
	Kind    string // rs | os
	Alloc   bool
	Batch   int    // MaxFilelist (request server)
	EOFMode string // with | after
	Short   int    // lister returns at most this many entries per call (0 = fill)
	Entries []vfLsEntry
	API     string // ReadDir | ReadDirContext | Glob | Walk
	Opts    vfOpts
}

func vfGenLsName(t *rapid.T, i int, kind string, allLong bool) []byte {
	k := rapid.IntRange(0, 11).Draw(t, "namekind")
	base := fmt.Sprintf("%04d", i)
	if allLong {
		k = 8 // every name as long as a name can be: a batch of them is far larger than one data payload (seed C16-e)
	}
	switch {
	case k <= 4:
		return []byte("f" + base)
	case k == 5:
		return []byte("with space " + base)
	case k == 6:
		return []byte("üñí-日本-" + base)
	case k == 7:
		return []byte("bad\xff\xfe" + base)
	case k == 8:
		return []byte(strings.Repeat("L", 255-len(base)) + base)
	case k == 9:
		return []byte(".hidden" + base)
	case k == 10:
		return []byte("..." + base)
	default:
		return []byte("[x]*?" + base)
	}
}

func vfGenC16(t *rapid.T) vfCaseC16 {
	c := vfCaseC16{Kind: rapid.SampledFrom([]string{"rs", "rs", "rs", "os"}).Draw(t, "kind"), Alloc: rapid.Bool().Draw(t, "alloc")}
	c.Opts = vfGenSmallOpts(t)
	c.API = rapid.SampledFrom([]string{"ReadDir", "ReadDir", "ReadDirContext", "Glob", "Walk"}).Draw(t, "api")
	var n int
	if c.Kind == "rs" {
		c.Batch = rapid.SampledFrom([]int{1, 2, 3, 7, 100}).Draw(t, "batch")
		c.EOFMode = rapid.SampledFrom([]string{"with", "after"}).Draw(t, "eofmode")
		c.Short = rapid.SampledFrom([]int{0, 0, 1, 2, 5}).Draw(t, "short")
		n = rapid.IntRange(0, 2*c.Batch+3).Draw(t, "n")
		if c.Batch == 100 {
			n = rapid.SampledFrom([]int{0, 1, 99, 100, 101, 199, 200, 201, 203}).Draw(t, "n100")
		}
	} else {
		n = rapid.SampledFrom([]int{0, 1, 2, 127, 128, 129, 255, 256, 257, 300}).Draw(t, "nos")
		if rapid.Bool().Draw(t, "drawn") {
			n = rapid.IntRange(0, 20).Draw(t, "ndrawn")
		}
	}
	allLong := rapid.IntRange(0, 4).Draw(t, "alllong") == 0
	for i := 0; i < n; i++ {
		e := vfLsEntry{Name: vfGenLsName(t, i, c.Kind, allLong), Size: int64(rapid.IntRange(0, 40).Draw(t, "size")),
			Perm: uint32(rapid.SampledFrom([]int{0o644, 0o600, 0o755, 0o4711, 0o1777, 0}).Draw(t, "perm")), Mtime: int64(rapid.SampledFrom([]int{0, 1, 1000000000, 1700000000, 2000000000}).Draw(t, "mtime"))}
		if c.Kind == "rs" {
			e.Size = int64(vfGenU64(t, "bigsize") >> 1)
			if rapid.IntRange(0, 3).Draw(t, "hasext") == 0 {
				e.Ext = vfGenExts(t, "ext", 3)
			}
			e.Wraps = rapid.IntRange(0, 3).Draw(t, "wraps") == 0
		}
		c.Entries = append(c.Entries, e)
	}
	if c.Kind == "rs" && n > 0 && rapid.Bool().Draw(t, "dots") {
		// a lister may well report "." and ".." like readdir(3) does
		c.Entries = append([]vfLsEntry{{Name: []byte("."), Perm: 0o755}, {Name: []byte(".."), Perm: 0o755}}, c.Entries...)
	}
	return c
}

func vfRunC16(ctx *vfCtx, c vfCaseC16) {
	baseline := vfPkgGoroutineIDs()
	sftp.VfResetGlobals()
	defer sftp.VfResetGlobals()
	ctx.Class("server=" + c.Kind)
	ctx.Class("api=" + c.API)
	var srv *vfSrv
	var err error
	dir := "/d"
	var root string
	if c.Kind == "rs" {
		if c.Batch < 1 {
			ctx.Failf("harness/bad-case", "batch %d", c.Batch)
		}
		sftp.MaxFilelist = int64(c.Batch)
		h := newVfH()
		h.addDir("/d")
		h.listEOF, h.listShort = c.EOFMode, c.Short
		var fis []os.FileInfo
		for _, e := range c.Entries {
			mi := vfMemInfo{name: string(e.Name), size: e.Size, mode: vfRefToFileMode(0o100000 | e.Perm), mtime: e.Mtime, uid: 7, gid: 8}
			if e.Wraps {
				mi.sys = &syscall.Stat_t{Uid: 4242, Gid: 4343, Nlink: 3}
			}
			if len(e.Ext) > 0 {
				fis = append(fis, vfMemInfoExt{mi, e.Ext})
			} else {
				fis = append(fis, mi)
			}
		}
		h.listOverride = map[string][]os.FileInfo{"/d": fis}
		// Lstat/Stat of the listed names (Walk and Glob ask for them)
		for _, e := range c.Entries {
			if s := string(e.Name); s != "." && s != ".." {
				h.addFile("/d/"+s, nil)
			}
		}
		srv, err = vfStartSrv(vfSrvCfg{Kind: "rs", Alloc: c.Alloc}, "", h)
	} else {
		root = vfTempDir("vfls")
		defer os.RemoveAll(root)
		os.Mkdir(root+"/d", 0o755)
		for _, e := range c.Entries {
			p := root + "/d/" + string(e.Name)
			if err := os.WriteFile(p, make([]byte, e.Size), 0o644); err != nil {
				ctx.Failf("harness/mkfile", "%v", err)
			}
			os.Chmod(p, vfRefToFileMode(0o100000|e.Perm)&^os.ModeType)
			os.Chtimes(p, time.Unix(e.Mtime, 0), time.Unix(e.Mtime, 0))
		}
		dir = "d"
		srv, err = vfStartSrv(vfSrvCfg{Kind: "os", Alloc: c.Alloc}, root, nil)
	}
	if err != nil {
		ctx.Failf("harness/server", "%v", err)
	}
	cl, err := sftp.NewClientPipe(srv.link.Client, srv.link.Client, c.Opts.clientOptions()...)
	if err != nil {
		ctx.Failf("harness/client", "%v", err)
	}
	type ent struct {
		name  string
		attrs string
	}
	var got []ent
	var opErr error
	// termination: a listing of n entries needs at most n+3 READDIRs (plus the
	// Lstat/Stat traffic of Glob and Walk); far beyond that it will never end.
	limit := 8*(len(c.Entries)+8) + 64
	var runaway atomic.Bool
	watch := make(chan struct{})
	go func() {
		defer close(watch)
		if srv.link.C2S.WaitFrames(limit) {
			runaway.Store(true)
			srv.link.Client.Close()
		}
	}()
	defer func() {
		srv.link.C2S.AbortWait()
		<-watch
	}()
	d, r := vfCall(func() (string, error) {
		switch c.API {
		case "ReadDir", "ReadDirContext":
			var fis []os.FileInfo
			if c.API == "ReadDir" {
				fis, opErr = cl.ReadDir(dir)
			} else {
				fis, opErr = cl.ReadDirContext(context.Background(), dir)
			}
			for _, fi := range fis {
				a := fmt.Sprintf("size=%d perm=%o mtime=%d", fi.Size(), vfRefFromFileMode(fi.Mode())&0o7777, fi.ModTime().Unix())
				if st, ok := fi.Sys().(*sftp.FileStat); ok && c.Kind == "rs" {
					a += fmt.Sprintf(" uid=%d gid=%d", st.UID, st.GID)
					for _, x := range st.Extended {
						a += fmt.Sprintf(" ext(%q=%q)", x.ExtType, x.ExtData)
					}
				}
				got = append(got, ent{fi.Name(), a})
			}
		case "Glob":
			var m []string
			m, opErr = cl.Glob(dir + "/*")
			for _, p := range m {
				got = append(got, ent{strings.TrimPrefix(p, dir+"/"), ""})
			}
		case "Walk":
			w := cl.Walk(dir)
			for w.Step() {
				if w.Err() != nil {
					opErr = w.Err()
					break
				}
				if w.Path() == dir {
					continue
				}
				got = append(got, ent{path.Base(w.Path()), ""})
			}
		}
		return "", nil
	})
	if !vfAwait(ctx, d, c.API) {
		ctx.Failf("C16/hang/"+c.Kind+"/"+c.API, "%s of a directory with %d entries (batch %d, eof %q, short %d) never returns\n%s", c.API, len(c.Entries), c.Batch, c.EOFMode, c.Short, vfDumpRelevant())
	}
	if r.Panic != nil {
		ctx.Failf("panic/"+vfPanicSite([]byte(r.Stack)), "%v\n%s", r.Panic, vfTrimStack([]byte(r.Stack)))
	}
	desc := fmt.Sprintf("%s on %s: %d entries, batch %d, eof %q, short %d", c.API, c.Kind, len(c.Entries), c.Batch, c.EOFMode, c.Short)
	if runaway.Load() {
		ctx.Failf("C16/never-terminates/"+c.Kind+"/"+c.API, "%s: the client had sent %d requests and was still going", desc, limit)
	}
	if opErr != nil {
		ctx.Failf("C16/error/"+c.Kind+"/"+c.API, "%s failed: %v", desc, opErr)
	}
	var want []ent
	for _, e := range c.Entries {
		if s := string(e.Name); s != "." && s != ".." {
			a := ""
			if strings.HasPrefix(c.API, "ReadDir") {
				a = fmt.Sprintf("size=%d perm=%o mtime=%d", e.Size, e.Perm, e.Mtime)
				if c.Kind == "rs" {
					a += " uid=7 gid=8"
					for _, x := range e.Ext {
						a += fmt.Sprintf(" ext(%q=%q)", x.Name, x.Data)
					}
				}
			}
			want = append(want, ent{s, a})
		}
	}
	key := func(e ent) string { return e.name + "\x00" + e.attrs }
	sort.Slice(got, func(i, j int) bool { return key(got[i]) < key(got[j]) })
	sort.Slice(want, func(i, j int) bool { return key(want[i]) < key(want[j]) })
	i, j := 0, 0
	for i < len(got) || j < len(want) {
		switch {
		case j >= len(want) || (i < len(got) && key(got[i]) < key(want[j])):
			k := "duplicate-or-invented"
			ctx.Failf("C16/"+k+"/"+c.Kind+"/"+c.API, "%s: returned entry %q (%s) once too often or with other attributes; %d returned, %d expected", desc, got[i].name, got[i].attrs, len(got), len(want))
		case i >= len(got) || key(got[i]) > key(want[j]):
			ctx.Failf("C16/lost/"+c.Kind+"/"+c.API, "%s: entry %q (%s) is missing from the result; %d returned, %d expected", desc, want[j].name, want[j].attrs, len(got), len(want))
		}
		i++
		j++
	}
	if c.Kind == "rs" {
		if len(c.Entries) > c.Batch {
			ctx.NonTrivial()
			ctx.Class(fmt.Sprintf("n-mod-batch=%d", minInt(len(c.Entries)%c.Batch, 2)))
		}
		ctx.Class("eof=" + c.EOFMode)
		ctx.Class(fmt.Sprintf("batch=%d", c.Batch))
	} else if len(c.Entries) > 128 {
		ctx.NonTrivial()
	}
	d2, _ := vfCall(func() (string, error) { return "", cl.Close() })
	if !vfAwait(ctx, d2, "client close") {
		ctx.Failf("C16/close-hangs", "client Close hangs")
	}
	if !vfAwait(ctx, srv.done, "Serve") {
		ctx.Failf("C16/serve-hangs", "Serve never returns")
	}
	vfCheckNoLeak(ctx, "C16/leak", baseline)
}

func TestVerifC16(t *testing.T) {
	t.Run("gen", func(t *testing.T) { vfDriveSub(t, "gen", vfProp[vfCaseC16]{ID: "C16", Gen: vfGenC16, Run: vfRunC16}) })
	t.Run("sizes", func(t *testing.T) {
		// every directory size from 0 to beyond twice the batch size, for every small batch size and lister behaviour
		vfEnumerate(t, "sizes", vfProp[vfCaseC16]{ID: "C16", Run: vfRunC16}, func(yield func(vfCaseC16) bool) {
			k := 0
			for _, b := range []int{1, 2, 3, 7} {
				for n := 0; n <= 2*b+3; n++ {
					for _, eof := range []string{"with", "after"} {
						for _, short := range []int{0, 1, 2} {
							k++
							if !vfMine(k) {
								continue
							}
							c := vfCaseC16{Kind: "rs", Batch: b, EOFMode: eof, Short: short, API: "ReadDir", Opts: vfOpts{MaxPacket: 1000, Conc: 2}}
							for i := 0; i < n; i++ {
								c.Entries = append(c.Entries, vfLsEntry{Name: []byte(fmt.Sprintf("e%03d", i)), Size: int64(i), Perm: 0o644, Mtime: 1000000000})
							}
							if !yield(c) {
								return
							}
						}
					}
				}
			}
			vfSetExtra("sizes_grid", k)
		})
	})
}
