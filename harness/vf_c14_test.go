package sftp_test

// C14 — Close waits for the reads and writes sent before it.

import (
	"bytes"
	"fmt"
	"os"
	"strings"
	"testing"

	"pgregory.net/rapid"
)

type vfC14Item struct {
	Cmd   *vfReq `json:",omitempty"` // an unrelated, non-read/write, non-close request in the middle of the pipeline
	Close bool   `json:",omitempty"`
	H     int    // handle index
	Len   int    `json:",omitempty"`
	Off   int    `json:",omitempty"` // READ offset
	Fail  bool   `json:",omitempty"` // request server: the handler's ReadAt/WriteAt for this request fails (seed C14-c)
	HCmd  string `json:",omitempty"` // "FSTAT" | "FSETSTAT" on handle H, somewhere before its CLOSE: a command on the handle is not a close (seed C14-g)
}

// offsets from here on fail in the handler: far beyond anything the pipelines read or write
const vfC14Poison = 1 << 22

type vfCaseC14 struct {
	Srv     vfSrvCfg
	Kinds   []string // per handle: "R" (reads /file) or "W" (writes its own new file)
	Burst   []vfC14Item
	After   []vfReq // unrelated requests behind the closes
	Release []int
	WLen    int // bytes per WRITE
	// the client ends its sending direction right behind the pipeline instead of waiting for the replies
	// (seed C14-e): everything received before the end is still served, in order, before anything is swept;
	// replies may be lost on the way out, so only the handler / file side is judged
	EarlyHangup bool `json:",omitempty"`
}

func vfGenC14(t *rapid.T) vfCaseC14 {
	c := vfCaseC14{Srv: vfGenSrvCfg(t)}
	nh := rapid.IntRange(1, 4).Draw(t, "handles")
	for i := 0; i < nh; i++ {
		c.Kinds = append(c.Kinds, rapid.SampledFrom([]string{"R", "W", "W"}).Draw(t, "hkind"))
	}
	c.WLen = rapid.SampledFrom([]int{1, 16, 100}).Draw(t, "wlen")
	if c.Srv.Kind == "os" {
		c.WLen = rapid.SampledFrom([]int{16, 4096, 32768}).Draw(t, "wlenos")
	}
	d := rapid.IntRange(1, 64).Draw(t, "depth")
	for k := 0; k < d; k++ {
		h := rapid.IntRange(0, nh-1).Draw(t, "h")
		it := vfC14Item{H: h, Len: c.WLen}
		if c.Kinds[h] == "R" {
			it.Len = rapid.SampledFrom([]int{1, 10, 100, 300}).Draw(t, "rlen")
			it.Off = rapid.IntRange(0, 300-it.Len).Draw(t, "roff")
		}
		if c.Srv.Kind == "rs" && rapid.IntRange(0, 7).Draw(t, "iofail") == 0 {
			it.Fail = true
		}
		if rapid.IntRange(0, 9).Draw(t, "hcmd") == 0 {
			it = vfC14Item{H: h, HCmd: rapid.SampledFrom([]string{"FSTAT", "FSETSTAT"}).Draw(t, "hcmdkind")}
		}
		c.Burst = append(c.Burst, it)
	}
	// closes: each closed handle's CLOSE goes somewhere at or after its last operation
	for h := 0; h < nh; h++ {
		if h > 0 && rapid.IntRange(0, 3).Draw(t, "leaveopen") == 0 {
			continue
		}
		last := -1
		for i, it := range c.Burst {
			if !it.Close && it.H == h {
				last = i
			}
		}
		pos := rapid.IntRange(last+1, len(c.Burst)).Draw(t, "closepos")
		// never before a CLOSE-less later op of the same handle: pos > last guarantees it
		c.Burst = append(c.Burst[:pos], append([]vfC14Item{{Close: true, H: h}}, c.Burst[pos:]...)...)
	}
	// unrelated commands anywhere in the pipeline (in particular between the last read/write and the CLOSE)
	ncmd := rapid.IntRange(0, 4).Draw(t, "ncmd")
	for i := 0; i < ncmd; i++ {
		r := vfGenReq(t, []string{"STAT", "LSTAT", "REALPATH", "READLINK", "MKDIR", "STATVFS", "EXTUNKNOWN", "OPENDIR"})
		pos := rapid.IntRange(0, len(c.Burst)).Draw(t, "cmdpos")
		c.Burst = append(c.Burst[:pos], append([]vfC14Item{{Cmd: &r, H: -1}}, c.Burst[pos:]...)...)
	}
	na := rapid.IntRange(0, 4).Draw(t, "nafter")
	for i := 0; i < na; i++ {
		c.After = append(c.After, vfGenReq(t, []string{"STAT", "LSTAT", "REALPATH", "READLINK", "OPENDIR", "MKDIR"}))
	}
	c.Release = rapid.SliceOfN(rapid.IntRange(0, 15), 1, 24).Draw(t, "release")
	c.EarlyHangup = rapid.IntRange(0, 3).Draw(t, "earlyhangup") == 0
	return c
}

func vfRunC14(ctx *vfCtx, c vfCaseC14) {
	baseline := vfPkgGoroutineIDs()
	kind := c.Srv.Kind
	if c.Srv.Alloc {
		kind += "+alloc"
	}
	ctx.Class("server=" + kind)
	c.Srv.HOpts.OpenFile = false
	ps := vfStartProg(ctx, c.Srv, 1000, 1)
	defer ps.cleanup()
	// open the handles synchronously
	handleOf := make([]string, len(c.Kinds))
	fileOf := make([]string, len(c.Kinds))
	for i, k := range c.Kinds {
		var p *vfPkt
		if k == "R" {
			fileOf[i] = "file"
			p = &vfPkt{Type: vfFxpOpen, ID: ps.id(), Path: []byte(ps.env.prefix + "file"), Pflags: vfPfRead}
		} else {
			fileOf[i] = fmt.Sprintf("w%d", i)
			p = &vfPkt{Type: vfFxpOpen, ID: ps.id(), Path: []byte(ps.env.prefix + fileOf[i]), Pflags: vfPfWrite | vfPfCreat | vfPfTrunc}
		}
		ps.reqs = append(ps.reqs, p)
		ps.srv.Send(p)
		if !ps.srv.AwaitReplies(ctx, len(ps.reqs)) {
			ctx.Failf("C14/open-unanswered/"+kind, "OPEN got no reply")
		}
		pk, _, _, _ := ps.srv.Replies()
		rep := pk[len(pk)-1]
		if rep.Type != vfFxpHandle {
			ctx.Failf("harness/open", "OPEN %s failed: %s", fileOf[i], vfPktString(rep))
		}
		handleOf[i] = string(rep.Handle)
	}
	// objects behind the handles (request server)
	objOf := make([]*vfHObj, len(c.Kinds))
	if ps.srv.h != nil {
		objs := ps.srv.h.Objs()
		if len(objs) != len(c.Kinds) {
			ctx.Failf("harness/objects", "%d objects for %d opens", len(objs), len(c.Kinds))
		}
		copy(objOf, objs)
		ps.srv.h.mu.Lock()
		ps.srv.h.parkKinds["ReadAt"] = true
		ps.srv.h.parkKinds["WriteAt"] = true
		ps.srv.h.ioFailFrom = vfC14Poison
		ps.srv.h.mu.Unlock()
	}
	// the burst
	model := make([][]byte, len(c.Kinds))
	wcount := make([]int, len(c.Kinds))
	firstBurst := len(ps.reqs)
	var pkts []*vfPkt
	rwBeforeClose := 0
	sawClose := false
	for _, it := range c.Burst {
		var p *vfPkt
		switch {
		case it.Cmd != nil:
			p = ps.env.build(*it.Cmd, ps.id())
		case it.Close:
			p = &vfPkt{Type: vfFxpClose, ID: ps.id(), Handle: []byte(handleOf[it.H])}
			sawClose = true
		case it.HCmd == "FSTAT":
			p = &vfPkt{Type: vfFxpFstat, ID: ps.id(), Handle: []byte(handleOf[it.H])}
		case it.HCmd == "FSETSTAT":
			// times only: nothing the content or size checks below depend on
			p = &vfPkt{Type: vfFxpFsetstat, ID: ps.id(), Handle: []byte(handleOf[it.H]), Attrs: &vfAttrs{Flags: vfAttrACModTime, Atime: 1111111111, Mtime: 1222222222}}
		case it.Fail && ps.srv.h != nil && c.Kinds[it.H] == "R":
			p = &vfPkt{Type: vfFxpRead, ID: ps.id(), Handle: []byte(handleOf[it.H]), Offset: vfC14Poison + uint64(it.Off), Len: uint32(it.Len)}
		case it.Fail && ps.srv.h != nil:
			p = &vfPkt{Type: vfFxpWrite, ID: ps.id(), Handle: []byte(handleOf[it.H]), Offset: vfC14Poison, Data: vfPRFBytes(7, 0, c.WLen)}
		case c.Kinds[it.H] == "R":
			p = &vfPkt{Type: vfFxpRead, ID: ps.id(), Handle: []byte(handleOf[it.H]), Offset: uint64(it.Off), Len: uint32(it.Len)}
		default:
			off := wcount[it.H] * c.WLen
			wcount[it.H]++
			data := vfPRFBytes(uint32(50+it.H), off, c.WLen)
			model[it.H] = append(model[it.H], data...)
			p = &vfPkt{Type: vfFxpWrite, ID: ps.id(), Handle: []byte(handleOf[it.H]), Offset: uint64(off), Data: data}
		}
		if !it.Close && it.Cmd == nil && it.HCmd == "" && !sawClose {
			rwBeforeClose++
		}
		pkts = append(pkts, p)
		ps.reqs = append(ps.reqs, p)
	}
	for _, r := range c.After {
		p := ps.env.build(r, ps.id())
		pkts = append(pkts, p)
		ps.reqs = append(ps.reqs, p)
	}
	ps.srv.Send(pkts...)
	if c.EarlyHangup {
		ps.srv.link.C2S.closeWrite()
		ctx.Class("early-hangup")
	}
	served := func() bool {
		select {
		case <-ps.srv.done:
			return true
		default:
			return false
		}
	}

	parkedAtClose := 0
	if ps.srv.h != nil {
		// deterministic part: while earlier calls are parked, Close has not been invoked
		h := ps.srv.h
		k := 0
		for {
			vfSettle(ctx)
			parked := h.Parked()
			for _, o := range objOf {
				o.mu.Lock()
				busy, closes := o.inflight, o.closes
				o.mu.Unlock()
				if busy > 0 && closes > 0 {
					ctx.Failf("C14/closed-while-parked/"+kind, "object #%d (%s) has been closed while %d of its reads/writes are still in progress\nevents: %s", o.id, o.kind, busy, strings.Join(h.logCopy(), "; "))
				}
			}
			if ps.srv.link.S2C.Frames() >= len(ps.reqs) || (c.EarlyHangup && served()) {
				break
			}
			if len(parked) == 0 {
				if c.EarlyHangup {
					ctx.Failf("C14/serve-hangs/"+kind, "the stream has ended and nothing is in progress, yet Serve does not return\n%s", vfDumpRelevant())
				}
				pk, _, _, _ := ps.srv.Replies()
				ctx.Failf("C14/missing-replies/"+kind, "server idle after %d of %d responses\n%s", len(pk), len(ps.reqs), vfExchangeDump(ps.reqs, pk))
			}
			if len(parked) > parkedAtClose {
				parkedAtClose = len(parked)
			}
			pick := c.Release[k%len(c.Release)] % len(parked)
			k++
			h.Release(parked[pick])
		}
		h.ReleaseAll()
	}
	if c.EarlyHangup {
		if !vfAwait(ctx, ps.srv.done, "Serve to return") {
			ctx.Failf("C14/serve-hangs/"+kind, "Serve never returns after the peer hung up behind its pipeline\n%s", vfDumpRelevant())
		}
	} else if !ps.srv.AwaitReplies(ctx, len(ps.reqs)) {
		pk, _, _, _ := ps.srv.Replies()
		ctx.Failf("C14/missing-replies/"+kind, "server idle after %d of %d responses\n%s", len(pk), len(ps.reqs), vfExchangeDump(ps.reqs, pk))
	}
	vfSettle(ctx)
	if !c.EarlyHangup {
		vfCheckReplies(ctx, ps, kind)
	}
	// every READ/WRITE (all of them precede their handle's CLOSE) must have succeeded
	pk, _, _, _ := ps.srv.Replies()
	for i := firstBurst; i < firstBurst+len(c.Burst) && i < len(pk); i++ {
		if c.EarlyHangup && pk[i].ID != ps.reqs[i].ID {
			break
		}
		req, rep := ps.reqs[i], pk[i]
		if it := c.Burst[i-firstBurst]; it.HCmd != "" {
			ok := (it.HCmd == "FSTAT" && rep.Type == vfFxpAttrs) || (it.HCmd == "FSETSTAT" && rep.Type == vfFxpStatus && rep.Code == vfFxOK)
			if !ok {
				ctx.Failf("C14/handle-command-failed/"+kind, "%s #%d on a handle that was open when it was sent was answered %s", it.HCmd, i, vfPktString(rep))
			}
			ctx.Class("handle-command")
			continue
		}
		if it := c.Burst[i-firstBurst]; it.Fail && ps.srv.h != nil && !it.Close && it.Cmd == nil {
			// the injected handler failure is this request's own answer and nobody else's business
			if rep.Type != vfFxpStatus || rep.Code == vfFxOK || rep.Code == vfFxEOF {
				ctx.Failf("C14/fault-not-reported/"+kind, "request #%d, whose handler call failed, was answered %s", i, vfPktString(rep))
			}
			ctx.Class("handler-io-fault")
			continue
		}
		switch req.Type {
		case vfFxpRead:
			want := vfPRFBytes(1, int(req.Offset), int(req.Len))
			if rep.Type != vfFxpData || !bytes.Equal(rep.Data, want) {
				ctx.Failf("C14/read-failed/"+kind, "READ #%d (sent before the CLOSE of its handle) was answered %s", i, vfPktString(rep))
			}
		case vfFxpWrite:
			if rep.Type != vfFxpStatus || rep.Code != vfFxOK {
				ctx.Failf("C14/write-failed/"+kind, "WRITE #%d (sent before the CLOSE of its handle) was answered %s", i, vfPktString(rep))
			}
		case vfFxpClose:
			if rep.Type != vfFxpStatus || rep.Code != vfFxOK {
				ctx.Failf("C14/close-failed/"+kind, "CLOSE #%d was answered %s", i, vfPktString(rep))
			}
		}
	}
	// content
	for i, k := range c.Kinds {
		if k != "W" {
			continue
		}
		var got []byte
		if ps.srv.h != nil {
			if f := ps.srv.h.lookup("/" + fileOf[i]); f != nil {
				f.mu.Lock()
				got = append([]byte{}, f.data...)
				f.mu.Unlock()
			}
		} else {
			got, _ = os.ReadFile(ps.root + "/" + fileOf[i])
		}
		if !bytes.Equal(got, model[i]) {
			ctx.Failf("C14/content/"+kind, "file %s holds %d bytes, the pipelined writes amount to %d (first difference at %d)", fileOf[i], len(got), len(model[i]), vfDiffAt(got, model[i]))
		}
	}
	for _, o := range objOf {
		if o == nil {
			continue
		}
		o.mu.Lock()
		bad := o.closeWhileBusy || o.afterClose > 0 || o.closes > 1
		desc := fmt.Sprintf("object #%d (%s): closeWhileBusy=%v callsAfterClose=%d closes=%d", o.id, o.kind, o.closeWhileBusy, o.afterClose, o.closes)
		o.mu.Unlock()
		if bad {
			ctx.Failf("C14/io-overlaps-close/"+kind, "%s\nevents: %s", desc, strings.Join(ps.srv.h.logCopy(), "; "))
		}
	}
	if !c.EarlyHangup {
		ps.srv.Hangup(ctx, "C14/"+kind)
	}
	vfCheckNoLeak(ctx, "C14/leak/"+kind, baseline)
	if rwBeforeClose >= 2 && sawClose && (ps.srv.h == nil || parkedAtClose >= 1) {
		ctx.NonTrivial()
	}
	ctx.Class(fmt.Sprintf("depth>=%d", (len(c.Burst)/16)*16))
	ctx.Class(fmt.Sprintf("handles=%d", len(c.Kinds)))
}

func (h *vfH) logCopy() []string {
	h.mu.Lock()
	defer h.mu.Unlock()
	l := append([]string{}, h.log...)
	if len(l) > 80 {
		l = l[len(l)-80:]
	}
	return l
}

func TestVerifC14(t *testing.T) {
	vfDriveSub(t, "", vfProp[vfCaseC14]{ID: "C14", Gen: vfGenC14, Run: vfRunC14})
}
