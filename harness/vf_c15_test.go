package sftp_test

// C15 — concurrent single-packet operations are linearizable.

import (
	"bytes"
	"crypto/sha256"
	"fmt"
	"io"
	"os"
	"sort"
	"sync/atomic"
	"testing"

	sftp "github.com/pkg/sftp"
	"pgregory.net/rapid"
)

type vfC15Op struct {
	K   string // W | R | S
	H   int    // handle index
	Off int
	N   int
}

type vfCaseC15 struct {
	Kind    string // rs | os
	Alloc   bool
	Size    int
	Handles int
	Gs      [][]vfC15Op
	Gate    bool   // request server: park handler calls and release them in a drawn order
	Release []int  `json:",omitempty"`
	MaxTx   uint32 `json:",omitempty"` // request server: WithRSMaxTxPacket (0 = default 32768)
	Opts    vfOpts
}

func vfGenC15(t *rapid.T) vfCaseC15 {
	c := vfCaseC15{Kind: rapid.SampledFrom([]string{"rs", "rs", "os"}).Draw(t, "kind"), Alloc: rapid.Bool().Draw(t, "alloc")}
	c.Size = rapid.SampledFrom([]int{16, 64}).Draw(t, "size")
	c.Handles = rapid.IntRange(1, 2).Draw(t, "handles")
	c.Opts = vfOpts{MaxPacket: rapid.SampledFrom([]int{8, 16, 1000, 32768}).Draw(t, "maxpacket"), Conc: rapid.SampledFrom([]int{1, 2, 64}).Draw(t, "conc"), CRead: rapid.Bool().Draw(t, "cread"), CWrite: rapid.Bool().Draw(t, "cwrite")}
	// Operations of tens of kilobytes that still fit in one packet (seed C15-b): "mid" stays inside the default
	// 32 KiB limit of both sides, "big" raises it on both sides (a read longer than the server's limit is
	// completed by the client with a second request and is not one step).
	shape := "small"
	if c.Kind == "rs" {
		shape = rapid.SampledFrom([]string{"small", "small", "mid", "big"}).Draw(t, "shape")
	}
	switch shape {
	case "mid":
		c.Size, c.Opts.MaxPacket = 65536, 32768
	case "big":
		c.Size, c.Opts.MaxPacket, c.MaxTx = 98304, 65536, 65536
	}
	ng := rapid.IntRange(2, 4).Draw(t, "goroutines")
	for g := 0; g < ng; g++ {
		n := rapid.IntRange(1, 5).Draw(t, "nops")
		var prog []vfC15Op
		for i := 0; i < n; i++ {
			// R/W: ReadAt/WriteAt; RO/WO: Read/Write at the handle's own offset (seed C15-c); S: Stat
			op := vfC15Op{K: rapid.SampledFrom([]string{"W", "W", "R", "R", "R", "S", "RO", "RO", "WO"}).Draw(t, "k"), H: rapid.IntRange(0, c.Handles-1).Draw(t, "h")}
			if op.K != "S" {
				op.N = rapid.IntRange(1, 8).Draw(t, "n")
				if c.Kind == "os" {
					// pread/pwrite on a regular file are not atomic with respect to each
					// other for more than one byte (buffered reads do not take the inode
					// lock): the proviso "the backing store's ReadAt/WriteAt are atomic"
					// only holds for single bytes there
					op.N = 1
				}
				// a narrow band of offsets so that operations overlap
				op.Off = rapid.IntRange(0, minInt(c.Size-op.N, 12)).Draw(t, "off")
				switch shape {
				case "mid":
					op.N = rapid.SampledFrom([]int{1, 1000, 32767, 32768}).Draw(t, "nmid")
					op.Off = rapid.SampledFrom([]int{0, 1, 999, 32768, c.Size - op.N}).Draw(t, "offmid")
				case "big":
					op.N = rapid.SampledFrom([]int{32769, 40000, 49152, 65536}).Draw(t, "nbig")
					op.Off = rapid.SampledFrom([]int{0, 1, 100, c.Size - op.N}).Draw(t, "offbig")
				}
			}
			prog = append(prog, op)
		}
		c.Gs = append(c.Gs, prog)
	}
	// the offset-based operations of one handle together must stay inside the file (a Read that reaches the
	// end of the file is not one step)
	adv := make([]int, c.Handles)
	for g := range c.Gs {
		for i := range c.Gs[g] {
			op := &c.Gs[g][i]
			if op.K == "RO" || op.K == "WO" {
				if adv[op.H]+op.N > c.Size {
					op.K = map[string]string{"RO": "R", "WO": "W"}[op.K]
					continue
				}
				adv[op.H] += op.N
			}
		}
	}
	if c.Kind == "rs" {
		c.Gate = rapid.IntRange(0, 3).Draw(t, "gate") != 0
		c.Release = rapid.SliceOfN(rapid.IntRange(0, 7), 1, 16).Draw(t, "release")
	}
	return c
}

type vfLinOp struct {
	H         int // handle (offset-based operations)
	G, I      int
	Kind      string
	Off       int
	Data      []byte // written, or read
	Size      int64
	Call, Ret int64
}

// vfLinearizable: Wing-Gong search over a byte-array register of constant
// size, memoised on (set of linearised operations, state).
func vfLinearizable(ops []vfLinOp, init []byte) (bool, string) {
	n := len(ops)
	if n > 30 {
		return true, "too long"
	}
	type key struct {
		mask  uint32
		state string
		offs  [4]int
	}
	seen := map[key]bool{}
	var rec func(mask uint32, state []byte, offs [4]int) bool
	rec = func(mask uint32, state []byte, offs [4]int) bool {
		if mask == 1<<uint(n)-1 {
			return true
		}
		k := key{mask, string(state), offs}
		if len(state) > 256 {
			h := sha256.Sum256(state)
			k.state = string(h[:])
		}
		if seen[k] {
			return false
		}
		seen[k] = true
		minRet := int64(1) << 62
		for i := 0; i < n; i++ {
			if mask&(1<<uint(i)) == 0 && ops[i].Ret < minRet {
				minRet = ops[i].Ret
			}
		}
		for i := 0; i < n; i++ {
			if mask&(1<<uint(i)) != 0 || ops[i].Call > minRet {
				continue
			}
			o := &ops[i]
			switch o.Kind {
			case "W":
				ns := append([]byte{}, state...)
				copy(ns[o.Off:], o.Data)
				if rec(mask|1<<uint(i), ns, offs) {
					return true
				}
			case "R":
				if bytes.Equal(state[o.Off:o.Off+len(o.Data)], o.Data) && rec(mask|1<<uint(i), state, offs) {
					return true
				}
			case "WO":
				at := offs[o.H%4]
				if at+len(o.Data) > len(state) {
					break
				}
				ns := append([]byte{}, state...)
				copy(ns[at:], o.Data)
				no := offs
				no[o.H%4] = at + len(o.Data)
				if rec(mask|1<<uint(i), ns, no) {
					return true
				}
			case "RO":
				at := offs[o.H%4]
				if at+len(o.Data) > len(state) || !bytes.Equal(state[at:at+len(o.Data)], o.Data) {
					break
				}
				no := offs
				no[o.H%4] = at + len(o.Data)
				if rec(mask|1<<uint(i), state, no) {
					return true
				}
			case "S":
				if o.Size == int64(len(state)) && rec(mask|1<<uint(i), state, offs) {
					return true
				}
			}
		}
		return false
	}
	if rec(0, init, [4]int{}) {
		return true, ""
	}
	sorted := append([]vfLinOp{}, ops...)
	sort.Slice(sorted, func(i, j int) bool { return sorted[i].Call < sorted[j].Call })
	s := ""
	for _, o := range sorted {
		s += fmt.Sprintf("  g%d.%d %s handle=%d off=%d data=%s size=%d  [%d,%d]\n", o.G, o.I, o.Kind, o.H, o.Off, vfRuns(o.Data), o.Size, o.Call, o.Ret)
	}
	return false, s
}

// vfRuns prints a byte string as runs of equal bytes ("01x40000 00x9152").
func vfRuns(b []byte) string {
	if len(b) <= 16 {
		return fmt.Sprintf("%x", b)
	}
	s := ""
	for i := 0; i < len(b); {
		j := i
		for j < len(b) && b[j] == b[i] {
			j++
		}
		if len(s) > 200 {
			return s + "..."
		}
		s += fmt.Sprintf("%02xx%d ", b[i], j-i)
		i = j
	}
	return s
}

func vfRunC15(ctx *vfCtx, c vfCaseC15) {
	baseline := vfPkgGoroutineIDs()
	ctx.Class(fmt.Sprintf("server=%s size=%d", c.Kind, c.Size))
	init := make([]byte, c.Size) // zeros: every written tag byte is non-zero
	var srv *vfSrv
	var err error
	name := "/t"
	var h *vfH
	if c.Kind == "rs" {
		h = newVfH()
		h.addFile("/t", init)
		srv, err = vfStartSrv(vfSrvCfg{Kind: "rs", Alloc: c.Alloc, MaxTx: c.MaxTx, HOpts: vfHOpts{OpenFile: true}}, "", h)
	} else {
		root := vfTempDir("vfc15")
		defer os.RemoveAll(root)
		os.WriteFile(root+"/t", init, 0o644)
		name = "t"
		srv, err = vfStartSrv(vfSrvCfg{Kind: "os", Alloc: c.Alloc}, root, nil)
	}
	if err != nil {
		ctx.Failf("harness/server", "%v", err)
	}
	cl, err := sftp.NewClientPipe(srv.link.Client, srv.link.Client, c.Opts.clientOptions()...)
	if err != nil {
		ctx.Failf("harness/client", "%v", err)
	}
	var files []*sftp.File
	for i := 0; i < c.Handles; i++ {
		f, err := cl.OpenFile(name, os.O_RDWR)
		if err != nil {
			ctx.Failf("harness/open", "%v", err)
		}
		files = append(files, f)
	}
	if h != nil && c.Gate {
		h.mu.Lock()
		h.parkKinds["ReadAt"], h.parkKinds["WriteAt"] = true, true
		h.mu.Unlock()
	}
	var clock atomic.Int64
	results := make([][]vfLinOp, len(c.Gs))
	var dones []<-chan struct{}
	var calls []*vfOpResult
	tag := byte(0)
	tags := make([][]byte, len(c.Gs))
	for g := range c.Gs {
		tags[g] = make([]byte, len(c.Gs[g]))
		for i := range c.Gs[g] {
			tag++
			tags[g][i] = tag
		}
	}
	var opErr atomic.Value
	for g := range c.Gs {
		g := g
		d, r := vfCall(func() (string, error) {
			for i, op := range c.Gs[g] {
				lo := vfLinOp{G: g, I: i, Kind: op.K, Off: op.Off, H: op.H % len(files)}
				f := files[op.H%len(files)]
				switch op.K {
				case "WO":
					lo.Data = bytes.Repeat([]byte{tags[g][i]}, op.N)
					lo.Call = clock.Add(1)
					n, err := f.Write(lo.Data)
					lo.Ret = clock.Add(1)
					if err != nil || n != op.N {
						opErr.Store(fmt.Sprintf("g%d.%d Write returned n=%d err=%v", g, i, n, err))
						return "", nil
					}
				case "RO":
					b := make([]byte, op.N)
					lo.Call = clock.Add(1)
					n, err := f.Read(b)
					lo.Ret = clock.Add(1)
					if n != op.N || (err != nil && err != io.EOF) {
						opErr.Store(fmt.Sprintf("g%d.%d Read returned n=%d err=%v", g, i, n, err))
						return "", nil
					}
					lo.Data = b
				case "W":
					lo.Data = bytes.Repeat([]byte{tags[g][i]}, op.N)
					lo.Call = clock.Add(1)
					n, err := f.WriteAt(lo.Data, int64(op.Off))
					lo.Ret = clock.Add(1)
					if err != nil || n != op.N {
						opErr.Store(fmt.Sprintf("g%d.%d WriteAt returned n=%d err=%v", g, i, n, err))
						return "", nil
					}
				case "R":
					b := make([]byte, op.N)
					lo.Call = clock.Add(1)
					n, err := f.ReadAt(b, int64(op.Off))
					lo.Ret = clock.Add(1)
					if err != nil || n != op.N {
						opErr.Store(fmt.Sprintf("g%d.%d ReadAt returned n=%d err=%v", g, i, n, err))
						return "", nil
					}
					lo.Data = b
				case "S":
					lo.Call = clock.Add(1)
					fi, err := f.Stat()
					lo.Ret = clock.Add(1)
					if err != nil {
						opErr.Store(fmt.Sprintf("g%d.%d Stat failed: %v", g, i, err))
						return "", nil
					}
					lo.Size = fi.Size()
				}
				results[g] = append(results[g], lo)
			}
			return "", nil
		})
		dones = append(dones, d)
		calls = append(calls, r)
	}
	released := 0
	if h != nil && c.Gate {
		all := make(chan struct{})
		go func() {
			for _, d := range dones {
				<-d
			}
			close(all)
		}()
		k := 0
		for {
			vfSettle(ctx)
			select {
			case <-all:
			default:
				parked := h.Parked()
				if len(parked) == 0 {
					ctx.Failf("C15/hang", "operations neither finish nor wait at a gate\n%s", vfDumpRelevant())
				}
				h.Release(parked[c.Release[k%len(c.Release)]%len(parked)])
				k++
				released++
				continue
			}
			break
		}
		h.ReleaseAll()
	}
	for g, d := range dones {
		if !vfAwait(ctx, d, fmt.Sprintf("goroutine %d", g)) {
			ctx.Failf("C15/hang", "goroutine %d never finishes\n%s", g, vfDumpRelevant())
		}
		if calls[g].Panic != nil {
			ctx.Failf("panic/"+vfPanicSite([]byte(calls[g].Stack)), "%v\n%s", calls[g].Panic, vfTrimStack([]byte(calls[g].Stack)))
		}
	}
	if e := opErr.Load(); e != nil {
		ctx.Failf("C15/op-error/"+c.Kind, "%s", e)
	}
	var hist []vfLinOp
	for g := range results {
		hist = append(hist, results[g]...)
	}
	ok, why := vfLinearizable(hist, init)
	if !ok {
		ctx.Failf("C15/not-linearizable/"+c.Kind, "no sequential order of these operations on a plain %d-byte file explains the results (alloc=%v gate=%v):\n%s", c.Size, c.Alloc, c.Gate, why)
	}
	// overlap in real time on overlapping ranges with a write involved?
	overlap := false
	for i := range hist {
		for j := range hist {
			a, b := hist[i], hist[j]
			if i < j && a.Call < b.Ret && b.Call < a.Ret && (a.Kind == "W" || b.Kind == "W") && a.Kind != "S" && b.Kind != "S" &&
				a.Off < b.Off+len(b.Data) && b.Off < a.Off+len(a.Data) {
				overlap = true
			}
			if i < j && a.Call < b.Ret && b.Call < a.Ret && a.H == b.H && (a.Kind == "RO" || a.Kind == "WO") && (b.Kind == "RO" || b.Kind == "WO") {
				overlap = true
				ctx.Class("concurrent-offset-ops-on-one-handle")
			}
		}
	}
	if overlap {
		ctx.NonTrivial()
		ctx.Class("overlapping-write")
	}
	if released > 0 {
		ctx.Class("gated")
	}
	for _, f := range files {
		f.Close()
	}
	d, _ := vfCall(func() (string, error) { return "", cl.Close() })
	if !vfAwait(ctx, d, "client close") {
		ctx.Failf("C15/close-hangs", "client Close hangs")
	}
	if !vfAwait(ctx, srv.done, "Serve") {
		ctx.Failf("C15/serve-hangs", "Serve never returns")
	}
	vfCheckNoLeak(ctx, "C15/leak", baseline)
}

func TestVerifC15(t *testing.T) {
	t.Run("selftest", func(t *testing.T) {
		// the checker must reject hand-made non-linearizable histories and accept their repaired versions
		init := make([]byte, 4)
		bad := []vfLinOp{
			{Kind: "W", Off: 0, Data: []byte{1}, Call: 1, Ret: 2},
			{Kind: "R", Off: 0, Data: []byte{0}, Call: 3, Ret: 4}, // reads the old value after the write returned
		}
		if ok, _ := vfLinearizable(bad, init); ok {
			t.Fatalf("VFFAIL property=C15 key=harness/checker-accepts-stale-read")
		}
		bad2 := []vfLinOp{
			{Kind: "W", Off: 0, Data: []byte{1, 1}, Call: 1, Ret: 10},
			{Kind: "R", Off: 0, Data: []byte{1, 0}, Call: 2, Ret: 3}, // torn write
		}
		if ok, _ := vfLinearizable(bad2, init); ok {
			t.Fatalf("VFFAIL property=C15 key=harness/checker-accepts-torn-write")
		}
		good := []vfLinOp{
			{Kind: "W", Off: 0, Data: []byte{1}, Call: 1, Ret: 4},
			{Kind: "R", Off: 0, Data: []byte{0}, Call: 2, Ret: 3},
			{Kind: "R", Off: 0, Data: []byte{1}, Call: 5, Ret: 6},
			{Kind: "S", Size: 4, Call: 1, Ret: 9},
		}
		if ok, why := vfLinearizable(good, init); !ok {
			t.Fatalf("VFFAIL property=C15 key=harness/checker-rejects-good-history\n%s", why)
		}
	})
	t.Run("gen", func(t *testing.T) { vfDriveSub(t, "gen", vfProp[vfCaseC15]{ID: "C15", Gen: vfGenC15, Run: vfRunC15}) })
}
