package sftp_test

// C02 — servers answer every request once, with its id, in arrival order.

import (
	"fmt"
	"testing"

	"pgregory.net/rapid"
)

type vfPhase struct {
	Sync  []vfReq // sent one at a time, waiting for each reply (opens handles)
	Burst []vfReq // written in one go without reading replies
}

type vfCaseC02 struct {
	Srv     vfSrvCfg
	Phases  []vfPhase
	IDBase  uint32
	IDStep  uint32
	Release []int // order in which parked handler calls are released (request server)
	Park    []string
}

func vfGenSrvCfg(t *rapid.T) vfSrvCfg {
	c := vfSrvCfg{Kind: rapid.SampledFrom([]string{"os", "rs"}).Draw(t, "srvkind"), Alloc: rapid.Bool().Draw(t, "alloc")}
	c.Chunk = rapid.SampledFrom([]int{0, 0, 1, 7}).Draw(t, "chunk")
	// the payload limit can only be raised; 256 KiB is the largest frame either side accepts, and the option
	// is documented as safe for larger values too
	c.MaxTx = rapid.SampledFrom([]uint32{0, 0, 0, 32768, 65536, 262144, 1 << 20}).Draw(t, "maxtx")
	c.Extra = rapid.IntRange(0, 3).Draw(t, "extraopts") == 0
	if rapid.Bool().Draw(t, "shuffleopts") {
		c.OptPerm = rapid.Uint32Range(1, 1<<20).Draw(t, "optperm")
	}
	if c.Kind == "rs" {
		c.HOpts = vfHOpts{OpenFile: rapid.Bool().Draw(t, "openfile"), PosixRename: rapid.Bool().Draw(t, "posixrename"), StatVFS: rapid.Bool().Draw(t, "statvfs"),
			Lstat: rapid.Bool().Draw(t, "lstat"), RealPath: rapid.IntRange(0, 2).Draw(t, "realpath"), Readlink: rapid.Bool().Draw(t, "readlink"), NameLookup: rapid.Bool().Draw(t, "namelookup")}
	}
	return c
}

// vfMaybeReadOnly turns a drawn os-backed configuration into a ReadOnly() one now and then.
func vfMaybeReadOnly(t *rapid.T, c *vfSrvCfg) {
	if c.Kind == "os" && rapid.IntRange(0, 4).Draw(t, "readonly") == 0 {
		c.ReadOnly = true
	}
}

func vfGenC02(t *rapid.T) vfCaseC02 {
	c := vfCaseC02{Srv: vfGenSrvCfg(t)}
	if c.Srv.Kind == "os" && rapid.IntRange(0, 3).Draw(t, "readonly") == 0 {
		c.Srv.ReadOnly = true // refusals are produced on another code path than served requests
	}
	c.IDBase = vfGenU32(t, "idbase")
	// step 0 = every request carries the same id (legal on the wire; then only arrival order tells the responses apart)
	c.IDStep = uint32(rapid.SampledFrom([]int{1, 3, 7919, 0x9e3779b1, 1, 0}).Draw(t, "idstep"))
	np := rapid.IntRange(1, 3).Draw(t, "phases")
	for i := 0; i < np; i++ {
		var ph vfPhase
		if i == 0 {
			// handles of every kind to aim the burst at
			ph.Sync = append(ph.Sync, vfReq{T: "OPEN", P: 0, Pflags: 1}, vfReq{T: "OPEN", P: 8, Pflags: 0x1a}, vfReq{T: "OPEN", P: 0, Pflags: 3}, vfReq{T: "OPENDIR", P: 1})
		}
		ns := rapid.IntRange(0, 4).Draw(t, "nsync")
		for k := 0; k < ns; k++ {
			ph.Sync = append(ph.Sync, vfGenReq(t, []string{"OPEN", "OPEN", "OPENDIR", "CLOSE"}))
		}
		nb := rapid.IntRange(2, 40).Draw(t, "nburst")
		for k := 0; k < nb; k++ {
			ph.Burst = append(ph.Burst, vfGenReq(t, vfReqKinds))
		}
		c.Phases = append(c.Phases, ph)
	}
	c.Release = rapid.SliceOfN(rapid.IntRange(0, 15), 1, 24).Draw(t, "release")
	c.Park = rapid.SampledFrom([][]string{{"ReadAt", "WriteAt"}, {"ReadAt", "WriteAt", "Filecmd"}, {"ReadAt", "WriteAt", "ListAt"}, {}}).Draw(t, "park")
	return c
}

type vfExchange struct {
	Req   *vfPkt
	Reply *vfPkt
}

// vfProgSession is a running server plus the bookkeeping to send requests and
// match replies by position.
type vfProgSession struct {
	srv   *vfSrv
	env   vfProgEnv
	reqs  []*vfPkt // every request sent (INIT first)
	nextI uint32
	base  uint32
	step  uint32
	root  string
}

func vfStartProg(ctx *vfCtx, cfg vfSrvCfg, idBase, idStep uint32) *vfProgSession {
	ps := &vfProgSession{base: idBase, step: idStep}
	var h *vfH
	if cfg.Kind == "os" {
		ps.root = vfTempDir("vfsrv")
		vfMkTree(ps.root)
	} else {
		h = newVfH()
		vfHTree(h)
		ps.env.prefix = "/"
	}
	srv, err := vfStartSrv(cfg, ps.root, h)
	if err != nil {
		ctx.Failf("harness/server", "%v", err)
	}
	ps.srv = srv
	ps.reqs = append(ps.reqs, &vfPkt{Type: vfFxpInit, Version: 3})
	srv.Init(ctx)
	return ps
}

func (ps *vfProgSession) id() uint32 {
	ps.nextI++
	return ps.base + ps.nextI*ps.step
}

// learn records the handles of HANDLE replies from index `from` on.
func (ps *vfProgSession) learn(from int) {
	pk, _, _, _ := ps.srv.Replies()
	for i := from; i < len(pk); i++ {
		if pk[i].Type == vfFxpHandle {
			ps.env.handles = append(ps.env.handles, string(pk[i].Handle))
		}
	}
}

func (ps *vfProgSession) cleanup() {
	if ps.root != "" {
		vfRmTree(ps.root)
	}
}

// vfCheckReplies applies the C02 oracle to everything exchanged so far.
func vfCheckReplies(ctx *vfCtx, ps *vfProgSession, srvKind string) {
	pk, bodies, tail, bad := ps.srv.Replies()
	if bad || len(tail) != 0 {
		ctx.Failf("C02/framing/"+srvKind, "the response stream is not a sequence of frames (bad length=%v, %d trailing bytes)", bad, len(tail))
	}
	if len(pk) != len(ps.reqs) {
		ctx.Failf("C02/count/"+srvKind, "%d requests were sent, %d responses came back\n%s", len(ps.reqs), len(pk), vfExchangeDump(ps.reqs, pk))
	}
	for i := range pk {
		req, rep := ps.reqs[i], pk[i]
		if rep.Raw != nil && rep.Type != vfFxpExtendedReply && rep.Type != vfFxpExtended {
			ctx.Failf("C02/undecodable-reply/"+srvKind, "response %d does not decode: %s", i, vfHex(bodies[i]))
		}
		if req.Type != vfFxpInit && rep.ID != req.ID {
			ctx.Failf("C02/id-or-order/"+srvKind+"/"+vfTypeName(req.Type), "response %d carries id %d, the %d-th request (%s) had id %d\n%s", i, rep.ID, i, vfTypeName(req.Type), req.ID, vfExchangeDump(ps.reqs, pk))
		}
		if why := vfLegalReply(req, rep); why != "" {
			ctx.Failf("C02/illegal-reply/"+srvKind+"/"+vfTypeName(req.Type)+"->"+vfTypeName(rep.Type), "response %d: %s\nrequest %s\nreply   %s", i, why, vfPktString(req), vfPktString(rep))
		}
	}
}

func vfExchangeDump(reqs, reps []*vfPkt) string {
	s := ""
	for i := 0; i < len(reqs) || i < len(reps); i++ {
		a, b := "-", "-"
		if i < len(reqs) {
			a = fmt.Sprintf("%s id=%d", vfTypeName(reqs[i].Type), reqs[i].ID)
		}
		if i < len(reps) {
			b = fmt.Sprintf("%s id=%d", vfTypeName(reps[i].Type), reps[i].ID)
		}
		s += fmt.Sprintf("  %3d  %-26s -> %s\n", i, a, b)
		if i > 60 {
			s += "  ...\n"
			break
		}
	}
	return s
}

// vfDrainGates releases parked handler calls in the drawn order until the
// server has produced `total` frames. It returns how many calls were released
// out of arrival order.
func vfDrainGates(ctx *vfCtx, ps *vfProgSession, total int, release []int, key string) (released, outOfOrder int) {
	h := ps.srv.h
	k := 0
	for {
		vfSettle(ctx)
		if ps.srv.link.S2C.Frames() >= total {
			return
		}
		parked := h.Parked()
		if len(parked) == 0 {
			pk, _, _, _ := ps.srv.Replies()
			ctx.Failf(key+"/missing-replies", "the server is idle after %d of %d responses\n%s\n%s", len(pk), total, vfExchangeDump(ps.reqs, pk), vfDumpRelevant())
		}
		pick := 0
		if len(release) > 0 {
			pick = release[k%len(release)] % len(parked)
		}
		k++
		if pick != 0 {
			outOfOrder++
		}
		released++
		h.Release(parked[pick])
	}
}

func vfRunC02(ctx *vfCtx, c vfCaseC02) {
	baseline := vfPkgGoroutineIDs()
	kind := c.Srv.Kind
	if c.Srv.Alloc {
		kind += "+alloc"
	}
	if c.Srv.ReadOnly {
		kind += "+readonly"
	}
	ctx.Class("server=" + kind)
	ps := vfStartProg(ctx, c.Srv, c.IDBase, c.IDStep)
	defer ps.cleanup()
	maxBurst, outOfOrder := 0, 0
	rwInBurst := 0
	for _, ph := range c.Phases {
		for _, r := range ph.Sync {
			before := len(ps.reqs)
			p := ps.env.build(r, ps.id())
			ps.reqs = append(ps.reqs, p)
			ps.srv.Send(p)
			if !ps.srv.AwaitReplies(ctx, len(ps.reqs)) {
				pk, _, _, _ := ps.srv.Replies()
				ctx.Failf("C02/missing-replies/"+kind, "no response to a synchronous %s\n%s", r.T, vfExchangeDump(ps.reqs, pk))
			}
			ps.learn(before)
		}
		before := len(ps.reqs)
		var pkts []*vfPkt
		rw := 0
		for _, r := range ph.Burst {
			p := ps.env.build(r, ps.id())
			pkts = append(pkts, p)
			ps.reqs = append(ps.reqs, p)
			ctx.Class("req=" + r.T)
			if r.T == "READ" || r.T == "WRITE" {
				rw++
			}
		}
		if len(pkts) > maxBurst {
			maxBurst = len(pkts)
		}
		if rw > rwInBurst {
			rwInBurst = rw
		}
		if ps.srv.h != nil && len(c.Park) > 0 {
			ps.srv.h.mu.Lock()
			for _, k := range c.Park {
				ps.srv.h.parkKinds[k] = true
			}
			ps.srv.h.mu.Unlock()
		}
		ps.srv.Send(pkts...)
		if ps.srv.h != nil && len(c.Park) > 0 {
			_, ooo := vfDrainGates(ctx, ps, len(ps.reqs), c.Release, "C02/"+kind)
			outOfOrder += ooo
			ps.srv.h.ReleaseAll()
		}
		if !ps.srv.AwaitReplies(ctx, len(ps.reqs)) {
			pk, _, _, _ := ps.srv.Replies()
			ctx.Failf("C02/count/"+kind, "the server went idle after %d of %d responses\n%s", len(pk), len(ps.reqs), vfExchangeDump(ps.reqs, pk))
		}
		ps.learn(before)
	}
	vfSettle(ctx) // nothing more may follow
	vfCheckReplies(ctx, ps, kind)
	ps.srv.Hangup(ctx, "C02/"+kind)
	vfCheckReplies(ctx, ps, kind)
	vfCheckNoLeak(ctx, "C02/leak/"+kind, baseline)
	if maxBurst >= 3 && rwInBurst >= 2 && (c.Srv.Kind == "os" || outOfOrder > 0) {
		ctx.NonTrivial()
	}
	if outOfOrder > 0 {
		ctx.Class("released-out-of-order")
	}
	ctx.Class(fmt.Sprintf("burst>=%d", (maxBurst/10)*10))
}

func TestVerifC02(t *testing.T) {
	vfDriveSub(t, "", vfProp[vfCaseC02]{ID: "C02", Gen: vfGenC02, Run: vfRunC02})
}
