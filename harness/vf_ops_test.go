package sftp_test

// vf_ops_test.go — catalogue of client operations run against the scripted peer
// (shared by C03, C04, C20).

import (
	"bytes"
	"crypto/sha256"
	"fmt"
	"io"
	"os"
	"sort"
	"strings"
	"time"

	sftp "github.com/pkg/sftp"
	"pgregory.net/rapid"
)

type vfOpts struct {
	MaxPacket int
	Conc      int
	CRead     bool
	CWrite    bool
	Fstat     bool
}

func (o vfOpts) clientOptions() []sftp.ClientOption {
	return []sftp.ClientOption{
		sftp.MaxPacketUnchecked(o.MaxPacket),
		sftp.MaxConcurrentRequestsPerFile(o.Conc),
		sftp.UseConcurrentReads(o.CRead),
		sftp.UseConcurrentWrites(o.CWrite),
		sftp.UseFstat(o.Fstat),
	}
}

func vfGenSmallOpts(t *rapid.T) vfOpts {
	return vfOpts{
		MaxPacket: rapid.SampledFrom([]int{16, 64, 100, 1000}).Draw(t, "maxpacket"),
		Conc:      rapid.SampledFrom([]int{1, 2, 3, 8, 64}).Draw(t, "conc"),
		CRead:     rapid.Bool().Draw(t, "cread"),
		CWrite:    rapid.Bool().Draw(t, "cwrite"),
		Fstat:     rapid.Bool().Draw(t, "fstat"),
	}
}

// vfSess is a client connected to a scripted peer over an in-memory link.
type vfSess struct {
	link *vfLink
	peer *vfPeer
	c    *sftp.Client
	o    vfOpts
	big  int // length of /file
}

const vfFileSeed = 7

// vfPeerStdFS fills the peer's model with the fixed tree every op script uses.
func vfPeerStdFS(p *vfPeer, mp int) int {
	big := 3*mp + 7
	p.addFile("/probe", []byte("probe"))
	p.addFile("/file", vfPRFBytes(vfFileSeed, 0, big))
	p.addFile("/empty", nil)
	p.addSymlink("/link", "/file")
	p.addDir("/dir")
	p.addFile("/dir/a", []byte("a"))
	p.addFile("/dir/b", []byte("bb"))
	p.addFile("/dir/c", []byte("ccc"))
	p.addDir("/dir/sub")
	p.addFile("/dir/sub/x", []byte("xxxx"))
	p.addDir("/rmme")
	p.addFile("/rmme/f", []byte("f"))
	p.addDir("/rmme/d")
	p.addFile("/victim", []byte("victim"))
	p.addFile("/victim2", []byte("victim2"))
	return big
}

type vfClientOp struct {
	Name     string
	OpenFlag int // when non-zero (or OpenPath set) the op works on a File opened first
	OpenPath string
	Fsync    bool
	Run      func(s *vfSess, f *sftp.File) (string, error)
}

func vfFiList(fis []os.FileInfo) string {
	var parts []string
	for _, fi := range fis {
		parts = append(parts, fmt.Sprintf("%s:%d:%v", fi.Name(), fi.Size(), fi.Mode()))
	}
	sort.Strings(parts)
	return strings.Join(parts, ",")
}

func vfSum(b []byte) string {
	h := sha256.Sum256(b)
	return fmt.Sprintf("%d:%x", len(b), h[:6])
}

var vfClientOps = []vfClientOp{
	{Name: "Stat", Run: func(s *vfSess, _ *sftp.File) (string, error) {
		fi, err := s.c.Stat("/file")
		if err != nil {
			return "", err
		}
		return fmt.Sprintf("%s %d %v %d", fi.Name(), fi.Size(), fi.Mode(), fi.ModTime().Unix()), nil
	}},
	{Name: "Lstat", Run: func(s *vfSess, _ *sftp.File) (string, error) {
		fi, err := s.c.Lstat("/link")
		if err != nil {
			return "", err
		}
		return fmt.Sprintf("%s %d %v", fi.Name(), fi.Size(), fi.Mode()), nil
	}},
	{Name: "ReadLink", Run: func(s *vfSess, _ *sftp.File) (string, error) { return s.c.ReadLink("/link") }},
	{Name: "RealPath", Run: func(s *vfSess, _ *sftp.File) (string, error) { return s.c.RealPath("dir/../dir/./a") }},
	{Name: "Getwd", Run: func(s *vfSess, _ *sftp.File) (string, error) { return s.c.Getwd() }},
	{Name: "ReadDir", Run: func(s *vfSess, _ *sftp.File) (string, error) {
		fis, err := s.c.ReadDir("/dir")
		return vfFiList(fis), err
	}},
	{Name: "Glob", Run: func(s *vfSess, _ *sftp.File) (string, error) {
		m, err := s.c.Glob("/dir/*")
		sort.Strings(m)
		return strings.Join(m, ","), err
	}},
	{Name: "Walk", Run: func(s *vfSess, _ *sftp.File) (string, error) {
		w := s.c.Walk("/dir")
		var seen []string
		for i := 0; i < 100 && w.Step(); i++ {
			if w.Err() != nil {
				return strings.Join(seen, ","), w.Err()
			}
			seen = append(seen, w.Path())
		}
		sort.Strings(seen)
		return strings.Join(seen, ","), nil
	}},
	{Name: "Mkdir", Run: func(s *vfSess, _ *sftp.File) (string, error) { return "", s.c.Mkdir("/newdir") }},
	{Name: "MkdirAll", Run: func(s *vfSess, _ *sftp.File) (string, error) { return "", s.c.MkdirAll("/m1/m2/m3") }},
	{Name: "Remove", Run: func(s *vfSess, _ *sftp.File) (string, error) { return "", s.c.Remove("/victim") }},
	{Name: "RemoveDir", Run: func(s *vfSess, _ *sftp.File) (string, error) { return "", s.c.Remove("/rmme/d") }},
	{Name: "RemoveDirectory", Run: func(s *vfSess, _ *sftp.File) (string, error) { return "", s.c.RemoveDirectory("/rmme/d") }},
	{Name: "RemoveAll", Run: func(s *vfSess, _ *sftp.File) (string, error) { return "", s.c.RemoveAll("/rmme") }},
	{Name: "Rename", Run: func(s *vfSess, _ *sftp.File) (string, error) { return "", s.c.Rename("/victim", "/renamed") }},
	{Name: "PosixRename", Run: func(s *vfSess, _ *sftp.File) (string, error) { return "", s.c.PosixRename("/victim", "/victim2") }},
	{Name: "Link", Run: func(s *vfSess, _ *sftp.File) (string, error) { return "", s.c.Link("/victim", "/hard") }},
	{Name: "Symlink", Run: func(s *vfSess, _ *sftp.File) (string, error) { return "", s.c.Symlink("/victim", "/soft") }},
	{Name: "Chmod", Run: func(s *vfSess, _ *sftp.File) (string, error) { return "", s.c.Chmod("/victim", 0o600) }},
	{Name: "Chown", Run: func(s *vfSess, _ *sftp.File) (string, error) { return "", s.c.Chown("/victim", 12, 34) }},
	{Name: "Chtimes", Run: func(s *vfSess, _ *sftp.File) (string, error) {
		return "", s.c.Chtimes("/victim", time.Unix(1234, 0), time.Unix(5678, 0))
	}},
	{Name: "Truncate", Run: func(s *vfSess, _ *sftp.File) (string, error) { return "", s.c.Truncate("/victim", 3) }},
	{Name: "StatVFS", Run: func(s *vfSess, _ *sftp.File) (string, error) {
		v, err := s.c.StatVFS("/")
		if err != nil {
			return "", err
		}
		if v == nil {
			return "nil", nil
		}
		w := *v
		w.ID = 0
		return fmt.Sprintf("%+v", w), nil
	}},
	{Name: "Open", Run: func(s *vfSess, _ *sftp.File) (string, error) {
		f, err := s.c.Open("/file")
		if err != nil {
			return "", err
		}
		return f.Name(), f.Close()
	}},
	{Name: "Create", Run: func(s *vfSess, _ *sftp.File) (string, error) {
		f, err := s.c.Create("/created")
		if err != nil {
			return "", err
		}
		return f.Name(), f.Close()
	}},
	{Name: "OpenFile", Run: func(s *vfSess, _ *sftp.File) (string, error) {
		f, err := s.c.OpenFile("/victim", os.O_WRONLY|os.O_APPEND)
		if err != nil {
			return "", err
		}
		return f.Name(), f.Close()
	}},
	{Name: "F.Read", OpenPath: "/file", Run: func(s *vfSess, f *sftp.File) (string, error) {
		b := make([]byte, s.big+10)
		n, err := io.ReadFull(f, b)
		if err == io.ErrUnexpectedEOF {
			err = nil
		}
		return vfSum(b[:n]), err
	}},
	{Name: "F.ReadAtSmall", OpenPath: "/file", Run: func(s *vfSess, f *sftp.File) (string, error) {
		b := make([]byte, 5)
		n, err := f.ReadAt(b, 3)
		return vfSum(b[:n]), err
	}},
	{Name: "F.ReadAtBig", OpenPath: "/file", Run: func(s *vfSess, f *sftp.File) (string, error) {
		b := make([]byte, s.big-2)
		n, err := f.ReadAt(b, 1)
		return vfSum(b[:n]), err
	}},
	{Name: "F.ReadAtPastEOF", OpenPath: "/file", Run: func(s *vfSess, f *sftp.File) (string, error) {
		b := make([]byte, s.big+20)
		n, err := f.ReadAt(b, 1)
		if err == io.EOF {
			err = nil
		}
		return vfSum(b[:n]), err
	}},
	{Name: "F.WriteTo", OpenPath: "/file", Run: func(s *vfSess, f *sftp.File) (string, error) {
		var buf bytes.Buffer
		n, err := f.WriteTo(&buf)
		return fmt.Sprintf("%d %s", n, vfSum(buf.Bytes())), err
	}},
	{Name: "F.Write", OpenPath: "/victim", OpenFlag: os.O_RDWR, Run: func(s *vfSess, f *sftp.File) (string, error) {
		n, err := f.Write(vfPRFBytes(3, 0, 2*s.o.MaxPacket+3))
		return fmt.Sprint(n), err
	}},
	{Name: "F.WriteSmall", OpenPath: "/victim", OpenFlag: os.O_RDWR, Run: func(s *vfSess, f *sftp.File) (string, error) {
		n, err := f.Write([]byte("hello"))
		return fmt.Sprint(n), err
	}},
	{Name: "F.WriteAt", OpenPath: "/victim", OpenFlag: os.O_RDWR, Run: func(s *vfSess, f *sftp.File) (string, error) {
		n, err := f.WriteAt(vfPRFBytes(4, 0, 3*s.o.MaxPacket+1), 2)
		return fmt.Sprint(n), err
	}},
	{Name: "F.ReadFrom", OpenPath: "/victim", OpenFlag: os.O_RDWR, Run: func(s *vfSess, f *sftp.File) (string, error) {
		n, err := f.ReadFrom(bytes.NewReader(vfPRFBytes(5, 0, 3*s.o.MaxPacket+5)))
		return fmt.Sprint(n), err
	}},
	{Name: "F.ReadFromOpaque", OpenPath: "/victim", OpenFlag: os.O_RDWR, Run: func(s *vfSess, f *sftp.File) (string, error) {
		n, err := f.ReadFrom(struct{ io.Reader }{bytes.NewReader(vfPRFBytes(5, 0, 2*s.o.MaxPacket+5))})
		return fmt.Sprint(n), err
	}},
	{Name: "F.ReadFromWithConcurrency", OpenPath: "/victim", OpenFlag: os.O_RDWR, Run: func(s *vfSess, f *sftp.File) (string, error) {
		n, err := f.ReadFromWithConcurrency(bytes.NewReader(vfPRFBytes(6, 0, 3*s.o.MaxPacket+5)), 3)
		return fmt.Sprint(n), err
	}},
	{Name: "F.Stat", OpenPath: "/file", Run: func(s *vfSess, f *sftp.File) (string, error) {
		fi, err := f.Stat()
		if err != nil {
			return "", err
		}
		return fmt.Sprintf("%s %d %v", fi.Name(), fi.Size(), fi.Mode()), nil
	}},
	{Name: "F.SeekEnd", OpenPath: "/file", Run: func(s *vfSess, f *sftp.File) (string, error) {
		n, err := f.Seek(-3, io.SeekEnd)
		return fmt.Sprint(n), err
	}},
	{Name: "F.Chmod", OpenPath: "/victim", OpenFlag: os.O_RDWR, Run: func(s *vfSess, f *sftp.File) (string, error) { return "", f.Chmod(0o640) }},
	{Name: "F.Chown", OpenPath: "/victim", OpenFlag: os.O_RDWR, Run: func(s *vfSess, f *sftp.File) (string, error) { return "", f.Chown(5, 6) }},
	{Name: "F.Truncate", OpenPath: "/victim", OpenFlag: os.O_RDWR, Run: func(s *vfSess, f *sftp.File) (string, error) { return "", f.Truncate(2) }},
	{Name: "F.Sync", OpenPath: "/victim", OpenFlag: os.O_RDWR, Fsync: true, Run: func(s *vfSess, f *sftp.File) (string, error) { return "", f.Sync() }},
	{Name: "F.Close", OpenPath: "/victim", OpenFlag: os.O_RDWR, Run: func(s *vfSess, f *sftp.File) (string, error) { return "", f.Close() }},
}

var vfClientOpByName = func() map[string]*vfClientOp {
	m := map[string]*vfClientOp{}
	for i := range vfClientOps {
		m[vfClientOps[i].Name] = &vfClientOps[i]
	}
	return m
}()

type vfOpResult struct {
	Val      string
	Err      error
	Panic    any
	Stack    string
	Returned bool
}

// vfCall runs fn in its own goroutine, recovering a panic of the caller.
func vfCall(fn func() (string, error)) (<-chan struct{}, *vfOpResult) {
	res := &vfOpResult{}
	done := make(chan struct{})
	go func() {
		defer close(done)
		defer func() {
			if r := recover(); r != nil {
				res.Panic = r
				res.Stack = string(vfStack())
			}
		}()
		res.Val, res.Err = fn()
		res.Returned = true
	}()
	return done, res
}

func vfErrClass(err error) string {
	switch {
	case err == nil:
		return "nil"
	case err == io.EOF:
		return "EOF"
	default:
		return "error"
	}
}
