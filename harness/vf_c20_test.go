package sftp_test

// C20 — no server reply can crash the client.

import (
	"encoding/binary"
	"fmt"
	"sync/atomic"
	"testing"

	sftp "github.com/pkg/sftp"
	"pgregory.net/rapid"
)

type vfMut struct {
	Kind  string // cut | field | type | id | framelen | swap | bytes | none
	Off   int    `json:",omitempty"`
	Val   uint32 `json:",omitempty"`
	Bytes []byte `json:",omitempty"`
}

type vfCaseC20 struct {
	Op       string
	Opts     vfOpts
	ReplyIdx int // which reply after VERSION is mutated
	Mut      vfMut
}

var vfHostileU32 = []uint32{0, 1, 2, 3, 4, 5, 8, 9, 255, 256, 65535, 65536, 1<<31 - 1, 1 << 31, 1<<32 - 2, 1<<32 - 1}

func vfGenMut(t *rapid.T) vfMut {
	m := vfMut{}
	switch rapid.IntRange(0, 9).Draw(t, "mutkind") {
	case 0, 1, 2:
		m.Kind = "cut"
		m.Off = rapid.IntRange(0, 40).Draw(t, "cutat")
	case 3, 4, 5:
		m.Kind = "field"
		m.Off = rapid.IntRange(1, 40).Draw(t, "fieldoff")
		if rapid.Bool().Draw(t, "rel") {
			m.Kind = "fieldrel"
			m.Val = uint32(rapid.SampledFrom([]int{-1, 1, 2, -2}).Draw(t, "delta"))
		} else {
			m.Val = rapid.SampledFrom(vfHostileU32).Draw(t, "fieldval")
		}
	case 6:
		m.Kind = "type"
		if rapid.Bool().Draw(t, "knowntype") {
			m.Val = uint32(rapid.SampledFrom([]byte{101, 102, 103, 104, 105, 201, 2, 1, 3, 5, 200, 0, 255, 100, 106}).Draw(t, "typeval"))
		} else {
			m.Val = uint32(rapid.Byte().Draw(t, "typeval"))
		}
	case 7:
		m.Kind = "id"
		m.Val = rapid.SampledFrom([]uint32{0, 1, 2, 3, 4, 5, 6, 1<<32 - 1}).Draw(t, "idval")
	case 8:
		m.Kind = "framelen"
		m.Val = rapid.SampledFrom([]uint32{0, 256*1024 + 1, 1<<32 - 1, 1 << 31}).Draw(t, "framelen")
	default:
		m.Kind = "bytes"
		m.Val = uint32(rapid.SampledFrom([]byte{101, 102, 103, 104, 105, 201}).Draw(t, "btype"))
		m.Bytes = rapid.SliceOfN(rapid.Byte(), 0, 40).Draw(t, "bbytes")
	}
	return m
}

// vfApplyMut mutates one reply frame (length prefix + type + id + body). All
// results except "framelen" stay well-framed: the length prefix is recomputed.
func vfApplyMut(frame []byte, m vfMut) []byte {
	body := append([]byte{}, frame[4:]...)
	switch m.Kind {
	case "cut":
		k := m.Off
		if k > len(body) {
			k = len(body)
		}
		if k < 1 {
			k = 1 // a zero-length frame is the framing layer's business (framelen)
		}
		body = body[:k]
	case "field":
		if m.Off+4 <= len(body) {
			binary.BigEndian.PutUint32(body[m.Off:], m.Val)
		}
	case "fieldrel":
		if m.Off+4 <= len(body) {
			binary.BigEndian.PutUint32(body[m.Off:], binary.BigEndian.Uint32(body[m.Off:])+m.Val)
		}
	case "type":
		body[0] = byte(m.Val)
	case "id":
		if len(body) >= 5 {
			binary.BigEndian.PutUint32(body[1:], m.Val)
		}
	case "framelen":
		out := append([]byte{}, frame...)
		binary.BigEndian.PutUint32(out, m.Val)
		return out
	case "bytes":
		id := body[1:5]
		body = append(append([]byte{byte(m.Val)}, id...), m.Bytes...)
	}
	return vfFrame(body)
}

func vfGenC20(t *rapid.T) vfCaseC20 {
	op := rapid.SampledFrom(vfClientOps).Draw(t, "op")
	return vfCaseC20{
		Op:       op.Name,
		Opts:     vfGenSmallOpts(t),
		ReplyIdx: rapid.SampledFrom([]int{0, 0, 0, 1, 1, 1, 2, 2, 3, 3, 4, 5, 6, 8, 11}).Draw(t, "replyidx"),
		Mut:      vfGenMut(t),
	}
}

// vfStartSession connects a client to a fresh peer; ok=false when the
// handshake failed (the error is returned).
func vfStartSession(o vfOpts, tweak func(p *vfPeer, l *vfLink)) (*vfSess, error) {
	l := newVfLink()
	p := newVfPeer(l.Server)
	s := &vfSess{link: l, peer: p, o: o}
	s.big = vfPeerStdFS(p, o.MaxPacket)
	if tweak != nil {
		tweak(p, l)
	}
	go p.Serve()
	c, err := sftp.NewClientPipe(l.Client, l.Client, o.clientOptions()...)
	if err != nil {
		return s, err
	}
	s.c = c
	return s, nil
}

// vfEndSession closes the client and checks that Close and Wait return, the
// peer finishes, and no package goroutine survives.
func vfEndSession(ctx *vfCtx, key string, s *vfSess, baseline map[int]bool) {
	if s.c != nil {
		d, _ := vfCall(func() (string, error) { return "", s.c.Close() })
		if !vfAwait(ctx, d, "Client.Close") {
			ctx.Failf(key+"/close-hangs", "Client.Close never returns\n%s", vfDumpRelevant())
		}
		d, _ = vfCall(func() (string, error) { return "", s.c.Wait() })
		if !vfAwait(ctx, d, "Client.Wait") {
			ctx.Failf(key+"/wait-hangs", "Client.Wait never returns after Close\n%s", vfDumpRelevant())
		}
	} else {
		s.link.Client.Close()
	}
	if !vfAwait(ctx, s.peer.done, "peer shutdown") {
		// the client kept its write side open: close it for the peer's sake and report
		s.link.C2S.closeWrite()
		<-s.peer.done
		ctx.Failf(key+"/writer-left-open", "client side of the link was not closed")
	}
	vfCheckNoLeak(ctx, key+"/leak", baseline)
}

func vfRunC20(ctx *vfCtx, c vfCaseC20) {
	op := vfClientOpByName[c.Op]
	if op == nil {
		ctx.Failf("harness/unknown-op", "op %q", c.Op)
	}
	ctx.Class("op=" + c.Op)
	ctx.Class("mut=" + c.Mut.Kind)
	baseline := vfPkgGoroutineIDs()
	replies := 0
	mutated := false
	var opOver atomic.Bool
	var mutFrame, origFrame []byte
	s, err := vfStartSession(c.Opts, func(p *vfPeer, l *vfLink) {
		if op.Fsync {
			p.exts = append(p.exts, vfExt{[]byte(vfExtFsync), []byte("1")})
		}
		p.mutate = func(idx int, req *vfPkt, frame []byte) []byte {
			if req.Type == vfFxpInit {
				return frame
			}
			k := replies
			replies++
			if k == c.ReplyIdx && c.Mut.Kind != "none" && !opOver.Load() {
				mutated = true
				origFrame = frame
				mutFrame = vfApplyMut(frame, c.Mut)
				return mutFrame
			}
			return frame
		}
	})
	if err != nil {
		ctx.Failf("harness/handshake", "handshake with the honest peer failed: %v", err)
	}
	allocBefore := vfHeapAllocs()

	done, res := vfCall(func() (string, error) {
		var f *sftp.File
		if op.OpenPath != "" {
			var err error
			f, err = s.c.OpenFile(op.OpenPath, op.OpenFlag)
			if err != nil {
				return "open-failed", err
			}
		}
		return op.Run(s, f)
	})
	if !vfAwait(ctx, done, "client operation "+c.Op) {
		ctx.Failf("C20/hang/"+c.Op, "%s never returns after reply %d was mutated (%+v)\norig  %s\nmut   %s\n%s", c.Op, c.ReplyIdx, c.Mut, vfHex(origFrame), vfHex(mutFrame), vfDumpRelevant())
	}
	if res.Panic != nil {
		ctx.Failf("panic/"+vfPanicSite([]byte(res.Stack)), "%s panicked: %v\nreply %d mutated by %+v\norig  %s\nmut   %s\n%s", c.Op, res.Panic, c.ReplyIdx, c.Mut, vfHex(origFrame), vfHex(mutFrame), vfTrimStack([]byte(res.Stack)))
	}
	opOver.Store(true) // only replies to the operation itself are mutated, not the probe's
	received := s.link.S2C.TapLen()
	sent := s.link.C2S.TapLen()
	used := vfHeapAllocs() - allocBefore
	bound := uint64(2<<20 + 64*(received+sent) + 8*c.Opts.MaxPacket*(c.Opts.Conc+4))
	if used > bound {
		ctx.Failf("C20/alloc/"+c.Op, "%s allocated %d bytes while %d bytes were received and %d sent (bound %d); reply %d mutated by %+v", c.Op, used, received, sent, bound, c.ReplyIdx, c.Mut)
	}
	if mutated {
		ctx.NonTrivial()
		ctx.Class("outcome=" + vfErrClass(res.Err))
	} else {
		ctx.Class("outcome=unmutated")
		if res.Err != nil && res.Val != "open-failed" {
			ctx.Failf("harness/op-fails-unmutated", "%s fails against the honest peer: %v", c.Op, res.Err)
		}
	}

	// afterwards: usable, or failed cleanly
	d2, probe := vfCall(func() (string, error) {
		fi, err := s.c.Stat("/probe")
		if err != nil {
			return "", err
		}
		return fmt.Sprint(fi.Size()), nil
	})
	if !vfAwait(ctx, d2, "probe Stat") {
		ctx.Failf("C20/probe-hangs/"+c.Op, "a Stat issued after the mutated reply never returns\n%s", vfDumpRelevant())
	}
	if probe.Panic != nil {
		ctx.Failf("panic/"+vfPanicSite([]byte(probe.Stack)), "probe Stat panicked: %v\n%s", probe.Panic, vfTrimStack([]byte(probe.Stack)))
	}
	switch {
	case probe.Err == nil && probe.Val == "5":
		ctx.Class("after=usable")
	case probe.Err == nil:
		ctx.Failf("C20/probe-wrong/"+c.Op, "client still answers but wrongly: Stat(/probe).Size = %s, want 5", probe.Val)
	default:
		ctx.Class("after=failed")
	}
	vfEndSession(ctx, "C20", s, baseline)
}

var vfPropC20 = vfProp[vfCaseC20]{ID: "C20", Gen: vfGenC20, Run: vfRunC20}

func TestVerifC20(t *testing.T) {
	t.Run("gen", func(t *testing.T) { vfDriveSub(t, "gen", vfPropC20) })
}
