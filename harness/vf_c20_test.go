package sftp_test

// C20 — no server reply can crash the client.

import (
	"encoding/binary"
	"fmt"
	"sync/atomic"
	"testing"

	sftp "github.com/pkg/sftp"
	"pgregory.net/rapid"
)

type vfMut struct {
	Kind  string // cut | field | type | id | framelen | swap | bytes | none
	Off   int    `json:",omitempty"`
	Val   uint32 `json:",omitempty"`
	Bytes []byte `json:",omitempty"`
}

type vfCaseC20 struct {
	Op       string
	Opts     vfOpts
	ReplyIdx int // which reply after VERSION is mutated
	Mut      vfMut
}

var vfHostileU32 = []uint32{0, 1, 2, 3, 4, 5, 8, 9, 255, 256, 65535, 65536, 1<<31 - 1, 1 << 31, 1<<32 - 2, 1<<32 - 1}

func vfGenMut(t *rapid.T) vfMut {
	m := vfMut{}
	switch rapid.IntRange(0, 13).Draw(t, "mutkind") {
	case 13:
		// the stream itself stops inside this reply: after Off of its bytes the transport reports EOF (Val 0)
		// or a read error (Val 1) - not a malformed reply but the end of all replies (seed C20-e)
		m.Kind = "break"
		m.Off = rapid.SampledFrom([]int{0, 1, 2, 3, 4, 5, 8, 9, 13, 20}).Draw(t, "breakat")
		m.Val = uint32(rapid.IntRange(0, 1).Draw(t, "breakerr"))
	case 0, 1, 2:
		m.Kind = "cut"
		m.Off = rapid.IntRange(0, 40).Draw(t, "cutat")
	case 3, 4, 5:
		m.Kind = "field"
		m.Off = rapid.IntRange(1, 40).Draw(t, "fieldoff")
		if rapid.Bool().Draw(t, "rel") {
			m.Kind = "fieldrel"
			m.Val = uint32(rapid.SampledFrom([]int{-1, 1, 2, -2}).Draw(t, "delta"))
		} else {
			m.Val = rapid.SampledFrom(vfHostileU32).Draw(t, "fieldval")
		}
	case 6:
		m.Kind = "type"
		if rapid.Bool().Draw(t, "knowntype") {
			m.Val = uint32(rapid.SampledFrom([]byte{101, 102, 103, 104, 105, 201, 2, 1, 3, 5, 200, 0, 255, 100, 106}).Draw(t, "typeval"))
		} else {
			m.Val = uint32(rapid.Byte().Draw(t, "typeval"))
		}
	case 7:
		m.Kind = "id"
		m.Val = rapid.SampledFrom([]uint32{0, 1, 2, 3, 4, 5, 6, 1<<32 - 1}).Draw(t, "idval")
	case 8:
		m.Kind = "framelen"
		m.Val = rapid.SampledFrom([]uint32{0, 256*1024 + 1, 1<<32 - 1, 1 << 31}).Draw(t, "framelen")
	default:
		if k := rapid.IntRange(0, 3).Draw(t, "semantic"); k != 0 {
			// well-formed but over-long / absurd replies, built with the reference codec
			m.Kind = "sem"
			m.Val = uint32(rapid.IntRange(0, 11).Draw(t, "semkind"))
			m.Off = rapid.SampledFrom([]int{1, 2, 15, 16, 17, 100, 1000, 1001, 32768, 32769, 70000, 200000}).Draw(t, "semarg")
			break
		}
		m.Kind = "bytes"
		m.Val = uint32(rapid.SampledFrom([]byte{101, 102, 103, 104, 105, 201}).Draw(t, "btype"))
		m.Bytes = rapid.SliceOfN(rapid.Byte(), 0, 40).Draw(t, "bbytes")
	}
	return m
}

// vfApplyMut mutates one reply frame (length prefix + type + id + body). All
// results except "framelen" stay well-framed: the length prefix is recomputed.
func vfApplyMut(frame []byte, m vfMut) []byte {
	body := append([]byte{}, frame[4:]...)
	switch m.Kind {
	case "cut":
		k := m.Off
		if k > len(body) {
			k = len(body)
		}
		if k < 1 {
			k = 1 // a zero-length frame is the framing layer's business (framelen)
		}
		body = body[:k]
	case "field":
		if m.Off+4 <= len(body) {
			binary.BigEndian.PutUint32(body[m.Off:], m.Val)
		}
	case "fieldrel":
		if m.Off+4 <= len(body) {
			binary.BigEndian.PutUint32(body[m.Off:], binary.BigEndian.Uint32(body[m.Off:])+m.Val)
		}
	case "type":
		body[0] = byte(m.Val)
	case "id":
		if len(body) >= 5 {
			binary.BigEndian.PutUint32(body[1:], m.Val)
		}
	case "framelen":
		out := append([]byte{}, frame...)
		binary.BigEndian.PutUint32(out, m.Val)
		return out
	case "bytes":
		id := body[1:5]
		body = append(append([]byte{byte(m.Val)}, id...), m.Bytes...)
	case "sem":
		if out := vfSemMut(body, m); out != nil {
			return out
		}
	}
	return vfFrame(body)
}

// vfSemMut rewrites a reply into another *well-formed* reply that no honest
// server would send: more data than was asked for, longer or more numerous
// names, absurd attribute values, a different (valid) reply type.
func vfSemMut(body []byte, m vfMut) []byte {
	p, _, err := vfDecodeBody(body)
	if err != nil {
		return nil
	}
	k := m.Off
	if k > 200000 {
		k = 200000
	}
	filler := func(n int) []byte { return vfPRFBytes(99, 0, n) }
	switch m.Val % 12 {
	case 0: // DATA carrying k more bytes than the honest reply (i.e. more than requested)
		if p.Type != vfFxpData {
			p = &vfPkt{Type: vfFxpData, ID: p.ID}
		}
		p.Data = append(append([]byte{}, p.Data...), filler(k)...)
	case 1: // DATA with no bytes
		p = &vfPkt{Type: vfFxpData, ID: p.ID}
	case 2: // a very long handle
		p = &vfPkt{Type: vfFxpHandle, ID: p.ID, Handle: filler(k)}
	case 3: // an empty handle
		p = &vfPkt{Type: vfFxpHandle, ID: p.ID}
	case 4: // many name entries
		n := k
		if n > 3000 {
			n = 3000
		}
		q := &vfPkt{Type: vfFxpName, ID: p.ID}
		for i := 0; i < n; i++ {
			q.Names = append(q.Names, vfName{Name: []byte(fmt.Sprintf("e%d", i)), Long: []byte("l"), Attrs: vfAttrs{Flags: vfAttrSize, Size: uint64(i)}})
		}
		p = q
	case 5: // names with odd content
		p = &vfPkt{Type: vfFxpName, ID: p.ID, Names: []vfName{{Name: nil}, {Name: []byte("/")}, {Name: []byte("a/b/../..")}, {Name: filler(minInt(k, 70000))}, {Name: []byte("..")}}}
	case 6: // zero names
		p = &vfPkt{Type: vfFxpName, ID: p.ID}
	case 7: // attributes with absurd values
		p = &vfPkt{Type: vfFxpAttrs, ID: p.ID, Attrs: &vfAttrs{Flags: vfAttrSize | vfAttrPermissions | vfAttrACModTime | vfAttrUIDGID, Size: 1<<63 + uint64(k), Perm: 0o100644, Atime: 1<<32 - 1, Mtime: 1<<32 - 1, UID: 1<<32 - 1, GID: 1<<32 - 1}}
	case 8: // attributes claiming a size a little larger/smaller than the truth, regular file
		p = &vfPkt{Type: vfFxpAttrs, ID: p.ID, Attrs: &vfAttrs{Flags: vfAttrSize | vfAttrPermissions, Size: uint64(k), Perm: 0o100644}}
	case 9: // attributes with many extended pairs
		a := &vfAttrs{Flags: vfAttrExtended}
		for i := 0; i < minInt(k, 5000); i++ {
			a.Ext = append(a.Ext, vfExt{Name: []byte("t"), Data: []byte("d")})
		}
		p = &vfPkt{Type: vfFxpAttrs, ID: p.ID, Attrs: a}
	case 10: // status with a huge message
		p = &vfPkt{Type: vfFxpStatus, ID: p.ID, Code: uint32(k % 10), Msg: filler(minInt(k, 100000)), Lang: []byte("en")}
	default: // extended reply of odd length
		p = &vfPkt{Type: vfFxpExtendedReply, ID: p.ID, Raw: filler(minInt(k, 1000))}
	}
	out := vfEncode(p)
	if len(out)-4 > vfMaxFrame {
		return nil
	}
	return out
}

func vfGenC20(t *rapid.T) vfCaseC20 {
	op := rapid.SampledFrom(vfClientOps).Draw(t, "op")
	return vfCaseC20{
		Op:       op.Name,
		Opts:     vfGenSmallOpts(t),
		ReplyIdx: rapid.SampledFrom([]int{0, 0, 0, 1, 1, 1, 2, 2, 3, 3, 4, 5, 6, 8, 11}).Draw(t, "replyidx"),
		Mut:      vfGenMut(t),
	}
}

// vfStartSession connects a client to a fresh peer; ok=false when the
// handshake failed (the error is returned).
func vfStartSession(o vfOpts, tweak func(p *vfPeer, l *vfLink)) (*vfSess, error) {
	l := newVfLink()
	p := newVfPeer(l.Server)
	s := &vfSess{link: l, peer: p, o: o}
	s.big = vfPeerStdFS(p, o.MaxPacket)
	if tweak != nil {
		tweak(p, l)
	}
	go p.Serve()
	c, err := sftp.NewClientPipe(l.Client, l.Client, o.clientOptions()...)
	if err != nil {
		return s, err
	}
	s.c = c
	return s, nil
}

// vfEndSession closes the client and checks that Close and Wait return, the
// peer finishes, and no package goroutine survives.
func vfEndSession(ctx *vfCtx, key string, s *vfSess, baseline map[int]bool) {
	if s.c != nil {
		d, _ := vfCall(func() (string, error) { return "", s.c.Close() })
		if !vfAwait(ctx, d, "Client.Close") {
			ctx.Failf(key+"/close-hangs", "Client.Close never returns\n%s", vfDumpRelevant())
		}
		d, _ = vfCall(func() (string, error) { return "", s.c.Wait() })
		if !vfAwait(ctx, d, "Client.Wait") {
			ctx.Failf(key+"/wait-hangs", "Client.Wait never returns after Close\n%s", vfDumpRelevant())
		}
	} else {
		s.link.Client.Close()
	}
	if !vfAwait(ctx, s.peer.done, "peer shutdown") {
		// the client kept its write side open: close it for the peer's sake and report
		s.link.C2S.closeWrite()
		<-s.peer.done
		ctx.Failf(key+"/writer-left-open", "client side of the link was not closed")
	}
	vfCheckNoLeak(ctx, key+"/leak", baseline)
}

func vfRunC20(ctx *vfCtx, c vfCaseC20) {
	op := vfClientOpByName[c.Op]
	if op == nil {
		ctx.Failf("harness/unknown-op", "op %q", c.Op)
	}
	ctx.Class("op=" + c.Op)
	ctx.Class("mut=" + c.Mut.Kind)
	baseline := vfPkgGoroutineIDs()
	replies := 0
	mutated := false
	var opOver atomic.Bool
	var mutFrame, origFrame []byte
	s, err := vfStartSession(c.Opts, func(p *vfPeer, l *vfLink) {
		if op.Fsync {
			p.exts = append(p.exts, vfExt{[]byte(vfExtFsync), []byte("1")})
		}
		p.mutate = func(idx int, req *vfPkt, frame []byte) []byte {
			if req.Type == vfFxpInit {
				return frame
			}
			k := replies
			replies++
			if k == c.ReplyIdx && c.Mut.Kind == "break" && !opOver.Load() {
				mutated = true
				origFrame, mutFrame = frame, frame
				at := c.Mut.Off
				if at > len(frame) {
					at = len(frame)
				}
				l.S2C.mu.Lock()
				l.S2C.cut = int64(len(l.S2C.tap) + at)
				if c.Mut.Val != 0 {
					l.S2C.cutErr = errVfCut
				}
				l.S2C.mu.Unlock()
				return frame
			}
			if k == c.ReplyIdx && c.Mut.Kind != "none" && !opOver.Load() {
				mutated = true
				origFrame = frame
				mutFrame = vfApplyMut(frame, c.Mut)
				return mutFrame
			}
			return frame
		}
	})
	if err != nil {
		ctx.Failf("harness/handshake", "handshake with the honest peer failed: %v", err)
	}
	allocBefore := vfHeapAllocs()

	done, res := vfCall(func() (string, error) {
		var f *sftp.File
		if op.OpenPath != "" {
			var err error
			f, err = s.c.OpenFile(op.OpenPath, op.OpenFlag)
			if err != nil {
				return "open-failed", err
			}
		}
		return op.Run(s, f)
	})
	if !vfAwait(ctx, done, "client operation "+c.Op) {
		ctx.Failf("C20/hang/"+c.Op, "%s never returns after reply %d was mutated (%+v)\norig  %s\nmut   %s\n%s", c.Op, c.ReplyIdx, c.Mut, vfHex(origFrame), vfHex(mutFrame), vfDumpRelevant())
	}
	if res.Panic != nil {
		ctx.Failf("panic/"+vfPanicSite([]byte(res.Stack)), "%s panicked: %v\nreply %d mutated by %+v\norig  %s\nmut   %s\n%s", c.Op, res.Panic, c.ReplyIdx, c.Mut, vfHex(origFrame), vfHex(mutFrame), vfTrimStack([]byte(res.Stack)))
	}
	opOver.Store(true) // only replies to the operation itself are mutated, not the probe's
	received := s.link.S2C.TapLen()
	sent := s.link.C2S.TapLen()
	used := vfHeapAllocs() - allocBefore
	bound := uint64(2<<20 + 64*(received+sent) + 8*c.Opts.MaxPacket*(c.Opts.Conc+4))
	if used > bound {
		ctx.Failf("C20/alloc/"+c.Op, "%s allocated %d bytes while %d bytes were received and %d sent (bound %d); reply %d mutated by %+v", c.Op, used, received, sent, bound, c.ReplyIdx, c.Mut)
	}
	if mutated {
		ctx.NonTrivial()
		ctx.Class("outcome=" + vfErrClass(res.Err))
	} else {
		ctx.Class("outcome=unmutated")
		if res.Err != nil && res.Val != "open-failed" {
			ctx.Failf("harness/op-fails-unmutated", "%s fails against the honest peer: %v", c.Op, res.Err)
		}
	}

	// afterwards: usable, or failed cleanly
	d2, probe := vfCall(func() (string, error) {
		fi, err := s.c.Stat("/probe")
		if err != nil {
			return "", err
		}
		return fmt.Sprint(fi.Size()), nil
	})
	if !vfAwait(ctx, d2, "probe Stat") {
		ctx.Failf("C20/probe-hangs/"+c.Op, "a Stat issued after the mutated reply never returns\n%s", vfDumpRelevant())
	}
	if probe.Panic != nil {
		ctx.Failf("panic/"+vfPanicSite([]byte(probe.Stack)), "probe Stat panicked: %v\n%s", probe.Panic, vfTrimStack([]byte(probe.Stack)))
	}
	switch {
	case probe.Err == nil && probe.Val == "5":
		ctx.Class("after=usable")
	case probe.Err == nil:
		ctx.Failf("C20/probe-wrong/"+c.Op, "client still answers but wrongly: Stat(/probe).Size = %s, want 5", probe.Val)
	default:
		ctx.Class("after=failed")
	}
	vfEndSession(ctx, "C20", s, baseline)
}

var vfPropC20 = vfProp[vfCaseC20]{ID: "C20", Gen: vfGenC20, Run: vfRunC20}

func TestVerifC20(t *testing.T) {
	t.Run("gen", func(t *testing.T) { vfDriveSub(t, "gen", vfPropC20) })
}
