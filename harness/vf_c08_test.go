package sftp_test

// C08 — decoding arbitrary bytes is total and bounded.

import (
	"bytes"
	"encoding/binary"
	"errors"
	"fmt"
	"io"
	"runtime/metrics"
	"sort"
	"sync/atomic"
	"testing"

	sftp "github.com/pkg/sftp"
	sshfx "github.com/pkg/sftp/internal/encoding/ssh/filexfer"
	"github.com/pkg/sftp/internal/encoding/ssh/filexfer/openssh"
	"pgregory.net/rapid"
)

type vfCaseC08 struct {
	Entry string
	Input []byte
	Flags uint32 `json:",omitempty"` // attribute flag word for the by-flags decoders
	Chunk int    `json:",omitempty"` // bytes per Read for the framing entries (0 = everything)
	Mut   string `json:",omitempty"` // how Input was derived (label only)
}

type vfCaseC08Sys struct {
	Pkt vfPkt
}

var vfAllocSample = []metrics.Sample{{Name: "/gc/heap/allocs:bytes"}}

func vfHeapAllocs() uint64 {
	metrics.Read(vfAllocSample)
	return vfAllocSample[0].Value.Uint64()
}

// vfChunkReader delivers at most chunk bytes per Read and counts what was taken.
type vfChunkReader struct {
	b     []byte
	chunk int
	taken int
	end   error // what Read returns once the bytes are used up (nil = io.EOF)
}

func (r *vfChunkReader) Read(p []byte) (int, error) {
	if len(r.b) == 0 {
		if r.end != nil {
			return 0, r.end
		}
		return 0, io.EOF
	}
	n := len(p)
	if r.chunk > 0 && n > r.chunk {
		n = r.chunk
	}
	n = copy(p[:n], r.b)
	r.b = r.b[n:]
	r.taken += n
	return n, nil
}

type vfC08Entry struct {
	Name    string
	Types   []byte // packet types whose valid encodings seed this entry
	Part    string // which part of the encoding is the input: "frame", "body" (type+payload), "payload" (after type), "afterid", "attrs", "attrbody", "extpair", "nameentry", "extbody"
	Slack   int    // extra allocation allowance
	HasType bool   // Input[0] is a type byte
	Call    func(c *vfCaseC08) error
}

var vfC08AllReq = []byte{vfFxpInit, vfFxpOpen, vfFxpClose, vfFxpRead, vfFxpWrite, vfFxpLstat, vfFxpFstat, vfFxpSetstat, vfFxpFsetstat,
	vfFxpOpendir, vfFxpReaddir, vfFxpRemove, vfFxpMkdir, vfFxpRmdir, vfFxpRealpath, vfFxpStat, vfFxpRename, vfFxpReadlink, vfFxpSymlink, vfFxpExtended}
var vfC08AllTypes = append(append([]byte{}, vfC08AllReq...), vfFxpVersion, vfFxpStatus, vfFxpHandle, vfFxpData, vfFxpName, vfFxpAttrs, vfFxpExtendedReply)
var vfC08AttrTypes = []byte{vfFxpOpen, vfFxpSetstat, vfFxpFsetstat, vfFxpAttrs}

func vfXBodyEntry(name string, typ byte, mk func() sshfx.Packet) vfC08Entry {
	return vfC08Entry{Name: name, Types: []byte{typ}, Part: "afterid", Call: func(c *vfCaseC08) error {
		return mk().UnmarshalPacketBody(sshfx.NewBuffer(append([]byte{}, c.Input...)))
	}}
}

var vfC08Entries = func() []vfC08Entry {
	es := []vfC08Entry{
		// the framing functions may allocate one buffer of the declared frame
		// length, which the 256 KiB limit bounds (by design, both codecs)
		{Name: "W.recvPacket", Types: vfC08AllTypes, Part: "frame", Slack: 256 * 1024},
		{Name: "W.recvPacket+alloc", Types: vfC08AllTypes, Part: "frame", Slack: 2 * 256 * 1024},
		{Name: "X.raw.ReadFrom", Types: vfC08AllTypes, Part: "frame", Slack: 256 * 1024},
		{Name: "X.req.ReadFrom", Types: vfC08AllReq[1:], Part: "frame", Slack: 2 * 256 * 1024},
		{Name: "W.makePacket", Types: vfC08AllReq, Part: "body", HasType: true, Call: func(c *vfCaseC08) error {
			if len(c.Input) == 0 {
				return errors.New("empty")
			}
			_, err := sftp.VfMakePacket(c.Input[0], c.Input[1:])
			return err
		}},
		{Name: "W.data", Types: []byte{vfFxpData}, Part: "payload", Call: func(c *vfCaseC08) error {
			var d sftp.VfDataPacket
			err := d.UnmarshalBinary(c.Input)
			if err == nil && int(d.Length) != len(d.Data) {
				return fmt.Errorf("VF: DATA delivered short: Length %d, %d bytes", d.Length, len(d.Data))
			}
			return err
		}},
		// the client-side decoder of every STATUS reply (seed C08-g); its result is an error value either way
		{Name: "W.status", Types: []byte{vfFxpStatus}, Part: "payload", Call: func(c *vfCaseC08) error {
			sftp.VfUnmarshalStatus(7, c.Input)
			return nil
		}},
		{Name: "W.attrs", Types: vfC08AttrTypes, Part: "attrs", Call: func(c *vfCaseC08) error {
			_, _, err := sftp.VfUnmarshalAttrs(c.Input)
			return err
		}},
		{Name: "W.filestat", Types: vfC08AttrTypes, Part: "attrbody", Call: func(c *vfCaseC08) error {
			_, _, err := sftp.VfUnmarshalFileStat(c.Flags, c.Input)
			return err
		}},
		{Name: "W.reqattrs", Types: vfC08AttrTypes, Part: "attrbody", Call: func(c *vfCaseC08) error {
			sftp.VfRequestAttributes(c.Flags, c.Input)
			return nil
		}},
		{Name: "W.extpair", Types: []byte{vfFxpInit, vfFxpVersion}, Part: "extpair", Call: func(c *vfCaseC08) error {
			_, _, err := sftp.VfUnmarshalExtPair(c.Input)
			return err
		}},
		{Name: "W.stringsafe", Types: []byte{vfFxpHandle, vfFxpClose}, Part: "afterid", Call: func(c *vfCaseC08) error {
			_, _, err := sftp.VfUnmarshalStringSafe(c.Input)
			return err
		}},
		{Name: "W.u32safe", Types: []byte{vfFxpHandle}, Part: "afterid", Call: func(c *vfCaseC08) error {
			_, _, err := sftp.VfUnmarshalUint32Safe(c.Input)
			if err == nil {
				_, _, err = sftp.VfUnmarshalUint64Safe(c.Input)
			}
			return err
		}},
		{Name: "X.raw.Unmarshal", Types: vfC08AllTypes, Part: "body", HasType: true, Call: func(c *vfCaseC08) error {
			var p sshfx.RawPacket
			return p.UnmarshalBinary(c.Input)
		}},
		{Name: "X.req.Unmarshal", Types: vfC08AllReq[1:], Part: "body", HasType: true, Call: func(c *vfCaseC08) error {
			var p sshfx.RequestPacket
			return p.UnmarshalBinary(c.Input)
		}},
		{Name: "X.init", Types: []byte{vfFxpInit}, Part: "payload", Call: func(c *vfCaseC08) error {
			var p sshfx.InitPacket
			return p.UnmarshalBinary(append([]byte{}, c.Input...))
		}},
		{Name: "X.version", Types: []byte{vfFxpVersion}, Part: "payload", Call: func(c *vfCaseC08) error {
			var p sshfx.VersionPacket
			return p.UnmarshalBinary(append([]byte{}, c.Input...))
		}},
		{Name: "X.attrs", Types: vfC08AttrTypes, Part: "attrs", Call: func(c *vfCaseC08) error {
			var a sshfx.Attributes
			return a.UnmarshalBinary(append([]byte{}, c.Input...))
		}},
		{Name: "X.attrsbyflags", Types: vfC08AttrTypes, Part: "attrbody", Call: func(c *vfCaseC08) error {
			var a sshfx.Attributes
			return a.XXX_UnmarshalByFlags(c.Flags, sshfx.NewBuffer(append([]byte{}, c.Input...)))
		}},
		// the wire codec's name-list decoding is hand-written inside Client.ReadDirContext: the entry point is a
		// READDIR answered with NAME + the input (seed C08-d); the allowance covers the session around it
		{Name: "W.namelist", Types: []byte{vfFxpName}, Part: "afterid", Slack: 1 << 20, Call: vfC08ClientNameList},
		{Name: "X.nameentry", Types: []byte{vfFxpName}, Part: "nameentry", Call: func(c *vfCaseC08) error {
			var e sshfx.NameEntry
			return e.UnmarshalBinary(append([]byte{}, c.Input...))
		}},
		{Name: "X.extattr", Types: []byte{vfFxpInit, vfFxpVersion}, Part: "extpair", Call: func(c *vfCaseC08) error {
			var e sshfx.ExtendedAttribute
			return e.UnmarshalBinary(append([]byte{}, c.Input...))
		}},
		{Name: "X.extpair", Types: []byte{vfFxpInit, vfFxpVersion}, Part: "extpair", Call: func(c *vfCaseC08) error {
			var e sshfx.ExtensionPair
			return e.UnmarshalBinary(append([]byte{}, c.Input...))
		}},
		vfXBodyEntry("X.body.STATUS", vfFxpStatus, func() sshfx.Packet { return new(sshfx.StatusPacket) }),
		vfXBodyEntry("X.body.HANDLE", vfFxpHandle, func() sshfx.Packet { return new(sshfx.HandlePacket) }),
		vfXBodyEntry("X.body.DATA", vfFxpData, func() sshfx.Packet { return new(sshfx.DataPacket) }),
		vfXBodyEntry("X.body.NAME", vfFxpName, func() sshfx.Packet { return new(sshfx.NamePacket) }),
		vfXBodyEntry("X.body.ATTRS", vfFxpAttrs, func() sshfx.Packet { return new(sshfx.AttrsPacket) }),
		vfXBodyEntry("X.body.EXTENDED", vfFxpExtended, func() sshfx.Packet { return new(sshfx.ExtendedPacket) }),
		vfXBodyEntry("X.body.EXTENDED_REPLY", vfFxpExtendedReply, func() sshfx.Packet { return new(sshfx.ExtendedReplyPacket) }),
		vfXBodyEntry("X.body.statvfsreply", vfFxpExtendedReply, func() sshfx.Packet { return new(openssh.StatVFSExtendedReplyPacket) }),
		{Name: "X.ext.bodies", Types: []byte{vfFxpExtended}, Part: "extbody", Call: func(c *vfCaseC08) error {
			var e1 openssh.StatVFSExtendedPacket
			var e2 openssh.POSIXRenameExtendedPacket
			var e3 openssh.HardlinkExtendedPacket
			var e4 openssh.FSyncExtendedPacket
			var e5 openssh.FStatVFSExtendedPacket
			err := e1.UnmarshalBinary(append([]byte{}, c.Input...))
			for _, e := range []error{e2.UnmarshalBinary(append([]byte{}, c.Input...)), e3.UnmarshalBinary(append([]byte{}, c.Input...)),
				e4.UnmarshalBinary(append([]byte{}, c.Input...)), e5.UnmarshalBinary(append([]byte{}, c.Input...))} {
				if e != nil {
					err = e
				}
			}
			return err
		}},
	}
	// every request type's UnmarshalPacketBody through RequestPacket is covered by X.req.Unmarshal
	return es
}()

var vfC08EntryByName = func() map[string]*vfC08Entry {
	m := map[string]*vfC08Entry{}
	for i := range vfC08Entries {
		m[vfC08Entries[i].Name] = &vfC08Entries[i]
	}
	return m
}()

// vfC08Seed cuts the part of p's reference encoding that entry e consumes and
// returns it with the offsets of its length/count fields.
func vfC08Seed(e *vfC08Entry, p *vfPkt) (in []byte, lens []int, flags uint32, ok bool) {
	body, bl := vfEncodeBodyMap(p)
	shift := func(off int) []int {
		var out []int
		for _, l := range bl {
			if l-off >= 0 {
				out = append(out, l-off)
			}
		}
		return out
	}
	attrs := p.Attrs
	switch e.Part {
	case "frame":
		f := vfFrame(body)
		out := []int{0}
		for _, l := range bl {
			out = append(out, l+4)
		}
		return f, out, 0, true
	case "body":
		return body, bl, 0, true
	case "payload":
		return body[1:], shift(1), 0, true
	case "afterid":
		if len(body) < 5 {
			return nil, nil, 0, false
		}
		return body[5:], shift(5), 0, true
	case "attrs", "attrbody":
		if attrs == nil {
			return nil, nil, 0, false
		}
		w := &vfW{}
		if e.Part == "attrs" {
			w.attrs(attrs)
		} else {
			w.attrBody(attrs)
		}
		return w.b, w.lens, attrs.Flags, true
	case "extpair":
		if len(p.Exts) == 0 {
			return nil, nil, 0, false
		}
		w := &vfW{}
		w.str(p.Exts[0].Name)
		w.str(p.Exts[0].Data)
		return w.b, w.lens, 0, true
	case "nameentry":
		if len(p.Names) == 0 {
			return nil, nil, 0, false
		}
		w := &vfW{}
		w.str(p.Names[0].Name)
		w.str(p.Names[0].Long)
		w.attrs(&p.Names[0].Attrs)
		return w.b, w.lens, 0, true
	case "extbody":
		off := 5 + 4 + len(p.ExtName)
		if len(body) < off {
			return nil, nil, 0, false
		}
		return body[off:], shift(off), 0, true
	}
	return nil, nil, 0, false
}

// vfC08FieldValues are the values a length or count field of current value n is replaced with: the
// boundary values, and (seed C08-b) the counts whose product with an element size of 2..32 bytes wraps
// around 2^32 to something small, which a bound written as count*size <= len lets through.
var vfC08FieldValues = func(n uint32) []uint32 {
	vs := []uint32{0, 1, n - 1, n + 1, 1<<31 - 1, 1<<32 - 1, 256 * 1024, 256*1024 + 1, 256*1024 - 1}
	for sh := uint(1); sh <= 5; sh++ {
		q := uint32(1) << (32 - sh) // 2^32 / element size
		vs = append(vs, q, q+1, q+n, (1<<sh-1)*q+n)
	}
	return vs
}

func vfKindIndexOfType(t *rapid.T, types []byte) int {
	var idx []int
	for ki, k := range vfC06Kinds {
		if bytes.IndexByte(types, k) >= 0 {
			idx = append(idx, ki)
		}
	}
	return rapid.SampledFrom(idx).Draw(t, "seedkind")
}

func vfGenC08(t *rapid.T) vfCaseC08 {
	ei := rapid.IntRange(0, len(vfC08Entries)-1).Draw(t, "entry")
	e := &vfC08Entries[ei]
	c := vfCaseC08{Entry: e.Name}
	if e.Part == "frame" {
		c.Chunk = rapid.SampledFrom([]int{0, 0, 1, 3, 4, 5, 1000, -1, -2, -3}).Draw(t, "chunk")
	}
	mode := rapid.IntRange(0, 11).Draw(t, "mode")
	if mode == 0 {
		// arbitrary bytes, length biased small and (for framing) near the limit
		c.Mut = "random"
		n := rapid.IntRange(0, 64).Draw(t, "rlen")
		c.Input = rapid.SliceOfN(rapid.Byte(), n, n).Draw(t, "rbytes")
		if e.Part == "frame" && rapid.Bool().Draw(t, "rframed") {
			ln := rapid.SampledFrom([]uint32{0, 1, 2, 4, 5, 9, uint32(n), 256*1024 - 1, 256 * 1024, 256*1024 + 1, 1<<31 - 1, 1 << 31, 1<<32 - 1}).Draw(t, "rdeclared")
			c.Input = append(binary.BigEndian.AppendUint32(nil, ln), c.Input...)
		}
		c.Flags = vfAttrFlagsFromIndex(rapid.IntRange(0, 31).Draw(t, "rflags"))
		return c
	}
	pc := vfGenC06Kind(t, vfKindIndexOfType(t, e.Types), -1)
	in, lens, flags, ok := vfC08Seed(e, &pc.Pkt)
	if !ok {
		c.Mut = "empty"
		return c
	}
	c.Flags = flags
	in = append([]byte{}, in...)
	switch {
	case mode <= 1:
		c.Mut = "valid"
	case mode <= 4 && len(in) > 0:
		c.Mut = "truncate"
		in = in[:rapid.IntRange(0, len(in)-1).Draw(t, "cut")]
	case mode <= 8 && len(lens) > 0:
		c.Mut = "lenfield"
		off := rapid.SampledFrom(lens).Draw(t, "field")
		if off+4 <= len(in) {
			n := binary.BigEndian.Uint32(in[off:])
			binary.BigEndian.PutUint32(in[off:], rapid.SampledFrom(vfC08FieldValues(n)).Draw(t, "fieldval"))
		}
	case mode == 9 && e.HasType && len(in) > 0:
		c.Mut = "typebyte"
		in[0] = rapid.Byte().Draw(t, "type")
	case mode == 10 && len(in) >= 4:
		c.Mut = "window"
		off := rapid.IntRange(0, len(in)-4).Draw(t, "woff")
		binary.BigEndian.PutUint32(in[off:], rapid.SampledFrom(vfC08FieldValues(binary.BigEndian.Uint32(in[off:]))).Draw(t, "wval"))
		if rapid.Bool().Draw(t, "wflags") {
			c.Flags = vfAttrFlagsFromIndex(rapid.IntRange(0, 31).Draw(t, "wf"))
		}
	default:
		c.Mut = "append"
		in = append(in, rapid.SliceOfN(rapid.Byte(), 1, 16).Draw(t, "garbage")...)
	}
	c.Input = in
	return c
}

// /gc/heap/allocs:bytes is flushed per P in batches, so a delta can include up to a
// few hundred KiB allocated just before the call; the bound is about count-driven
// allocations, which are megabytes and more.
const vfC08Base = 512 * 1024

// vfRunC08 decides one (entry, input) pair.
// vfC08ClientNameList feeds the input to the client as the body (after the id) of the NAME reply to the first
// READDIR of a ReadDir call. A panic of the call is re-raised here, in the measured goroutine.
func vfC08ClientNameList(c *vfCaseC08) error {
	var armed atomic.Bool
	armed.Store(true)
	s, err := vfStartSession(vfOpts{MaxPacket: 32768, Conc: 1}, func(p *vfPeer, l *vfLink) {
		p.mutate = func(idx int, req *vfPkt, frame []byte) []byte {
			if req.Type == vfFxpReaddir && armed.CompareAndSwap(true, false) {
				body := binary.BigEndian.AppendUint32([]byte{vfFxpName}, req.ID)
				return vfFrame(append(body, c.Input...))
			}
			return frame
		}
	})
	if err != nil {
		return fmt.Errorf("handshake: %v", err)
	}
	sub := &vfCtx{}
	d, res := vfCall(func() (string, error) { _, err := s.c.ReadDir("/dir"); return "", err })
	hung := !vfAwait(sub, d, "ReadDir")
	dc, _ := vfCall(func() (string, error) { return "", s.c.Close() })
	vfAwait(sub, dc, "Close")
	s.link.C2S.closeWrite()
	vfAwait(sub, s.peer.done, "peer")
	if res.Panic != nil {
		panic(fmt.Sprintf("%v\n%s", res.Panic, vfTrimStack([]byte(res.Stack))))
	}
	if hung {
		return fmt.Errorf("ReadDir did not return") // C20's business, not a decoding verdict
	}
	return res.Err
}

func vfRunC08(ctx *vfCtx, c vfCaseC08) {
	e := vfC08EntryByName[c.Entry]
	if e == nil {
		ctx.Failf("harness/unknown-entry", "entry %q", c.Entry)
	}
	ctx.Class("entry=" + e.Name)
	if c.Mut != "" {
		ctx.Class("mut=" + c.Mut)
	}
	if (c.Mut != "" && c.Mut != "valid" && c.Mut != "random" && c.Mut != "empty") || len(c.Input) >= 5 {
		ctx.NonTrivial()
	}
	bound := uint64(vfC08Base + 64*len(c.Input) + e.Slack)
	orig := append([]byte{}, c.Input...)
	var outcome string
	var over uint64
	for attempt := 0; attempt < 3; attempt++ {
		before := vfHeapAllocs()
		outcome = vfC08Call(ctx, e, &c)
		used := vfHeapAllocs() - before
		if used <= bound {
			over = 0
			break
		}
		over = used
	}
	if over != 0 {
		ctx.Failf("C08/alloc/"+e.Name, "%s allocated %d bytes for a %d-byte input (bound %d); input %s flags %#x", e.Name, over, len(c.Input), bound, vfHex(orig), c.Flags)
	}
	ctx.Class("outcome=" + outcome)
}

func vfC08Call(ctx *vfCtx, e *vfC08Entry, c *vfCaseC08) (outcome string) {
	defer func() {
		if r := recover(); r != nil {
			if f, ok := r.(*vfFailure); ok {
				panic(f)
			}
			ctx.Failf("C08/panic/"+e.Name, "%s panicked: %v; input %s flags %#x", e.Name, r, vfHex(c.Input), c.Flags)
		}
	}()
	if e.Part == "frame" {
		return vfC08Frame(ctx, e, c)
	}
	err := e.Call(c)
	if err != nil {
		if len(err.Error()) > 3 && err.Error()[:3] == "VF:" {
			ctx.Failf("C08/short-delivery/"+e.Name, "%v; input %s", err, vfHex(c.Input))
		}
		return "error"
	}
	return "value"
}

// vfC08Frame checks the framing rules for the stream readers.
func vfC08Frame(ctx *vfCtx, e *vfC08Entry, c *vfCaseC08) string {
	// the kind of reader is part of the input: a plain io.Reader handing out at most Chunk bytes per call, or
	// (Chunk -1 / -2) a *bytes.Buffer / *bytes.Reader, which offer more methods than Read (seed C08-e)
	var r io.Reader
	cr := &vfChunkReader{b: c.Input, chunk: c.Chunk}
	taken := func() int { return cr.taken }
	r = cr
	switch c.Chunk {
	case -3:
		// the stream does not end, it breaks: a transport error instead of EOF (seed C20-e)
		cr.chunk, cr.end = 0, errVfCut
	case -1:
		bb := bytes.NewBuffer(append([]byte{}, c.Input...))
		r, taken = bb, func() int { return len(c.Input) - bb.Len() }
	case -2:
		br := bytes.NewReader(append([]byte{}, c.Input...))
		r, taken = br, func() int { return len(c.Input) - br.Len() }
	}
	var typ byte
	var payload []byte
	var err error
	minLen := uint32(1)
	switch e.Name {
	case "W.recvPacket":
		typ, payload, err = sftp.VfRecvPacket(r, false, 7)
	case "W.recvPacket+alloc":
		typ, payload, err = sftp.VfRecvPacket(r, true, 7)
	case "X.raw.ReadFrom":
		minLen = 5
		var p sshfx.RawPacket
		err = p.ReadFrom(r, nil, sftp.VfMaxMsgLength)
		if err == nil {
			typ = byte(p.PacketType)
			payload = append(binary.BigEndian.AppendUint32(nil, p.RequestID), p.Data.Bytes()...)
		}
	case "X.req.ReadFrom":
		minLen = 5
		var p sshfx.RequestPacket
		err = p.ReadFrom(r, nil, sftp.VfMaxMsgLength)
		if err == nil {
			// decoded request: only framing facts are checked below
			typ = byte(p.Type())
			payload = nil
		}
	}
	in := c.Input
	fail := func(what, format string, args ...any) {
		ctx.Failf("C08/framing/"+what+"/"+e.Name, "%s: %s; input %s chunk %d", e.Name, fmt.Sprintf(format, args...), vfHex(in), c.Chunk)
	}
	if len(in) < 4 {
		if err == nil {
			fail("short-header", "returned a packet from %d header bytes", len(in))
		}
		return "error"
	}
	declared := binary.BigEndian.Uint32(in)
	switch {
	case declared > vfMaxFrame:
		if err == nil {
			fail("oversize-accepted", "accepted a frame of declared length %d", declared)
		}
		if taken() != 4 {
			fail("oversize-body-read", "read %d bytes of a refused %d-byte frame (want exactly the 4 length bytes)", taken(), declared)
		}
		return "error"
	case declared < minLen:
		if err == nil {
			fail("undersize-accepted", "accepted a frame of declared length %d", declared)
		}
		if taken() != 4 {
			fail("undersize-body-read", "read %d bytes after refusing length %d", taken(), declared)
		}
		return "error"
	case uint64(len(in)-4) < uint64(declared):
		if err == nil {
			fail("delivered-short", "declared %d, only %d body bytes available, yet a packet was delivered (%d payload bytes)", declared, len(in)-4, len(payload))
		}
		return "error"
	}
	// complete frame
	if e.Name == "X.req.ReadFrom" {
		// the request decoder may legitimately reject the body; framing facts only
		if taken() != int(4+declared) {
			fail("consumed", "consumed %d bytes of a complete %d-byte frame", taken(), 4+declared)
		}
		if err != nil {
			return "error"
		}
		if typ != in[4] {
			fail("type", "type %d, frame says %d", typ, in[4])
		}
		return "value"
	}
	if err != nil {
		fail("complete-rejected", "rejected a complete frame of length %d: %v", declared, err)
	}
	if taken() != int(4+declared) {
		fail("consumed", "consumed %d bytes of a complete %d-byte frame", taken(), 4+declared)
	}
	if typ != in[4] {
		fail("type", "type %d, frame says %d", typ, in[4])
	}
	if !bytes.Equal(payload, in[5:4+declared]) {
		fail("payload", "payload has %d bytes, frame has %d (first difference at %d)", len(payload), declared-1, vfDiffAt(payload, in[5:4+declared]))
	}
	return "value"
}

var vfPropC08 = vfProp[vfCaseC08]{ID: "C08", Gen: vfGenC08, Run: vfRunC08}

// vfRunC08Sys enumerates, for one valid packet and every entry it can seed:
// every truncation point, every length/count field x the hostile constants,
// every type byte.
func vfRunC08Sys(ctx *vfCtx, c vfCaseC08Sys) {
	p := &c.Pkt
	n := 0
	run := func(rc vfCaseC08) {
		n++
		data := vfMustJSON(rc)
		vfJournal("C08", "raw", data)
		sub := &vfCtx{}
		if f := vfProtect(func() { vfRunC08(sub, rc) }); f != nil {
			f.AltSub, f.AltCase = "raw", rc
			panic(f)
		}
	}
	for i := range vfC08Entries {
		e := &vfC08Entries[i]
		if bytes.IndexByte(e.Types, p.Type) < 0 {
			continue
		}
		in, lens, flags, ok := vfC08Seed(e, p)
		if !ok {
			continue
		}
		ctx.Class("entry=" + e.Name)
		for cut := 0; cut <= len(in); cut++ {
			run(vfCaseC08{Entry: e.Name, Input: append([]byte{}, in[:cut]...), Flags: flags, Mut: "truncate"})
			if e.Part == "frame" {
				run(vfCaseC08{Entry: e.Name, Input: append([]byte{}, in[:cut]...), Flags: flags, Mut: "truncate", Chunk: -1})
				run(vfCaseC08{Entry: e.Name, Input: append([]byte{}, in[:cut]...), Flags: flags, Mut: "truncate", Chunk: 1})
				run(vfCaseC08{Entry: e.Name, Input: append([]byte{}, in[:cut]...), Flags: flags, Mut: "truncate", Chunk: -3})
			}
		}
		sort.Ints(lens)
		for _, off := range lens {
			if off+4 > len(in) {
				continue
			}
			cur := binary.BigEndian.Uint32(in[off:])
			for _, v := range vfC08FieldValues(cur) {
				m := append([]byte{}, in...)
				binary.BigEndian.PutUint32(m[off:], v)
				run(vfCaseC08{Entry: e.Name, Input: m, Flags: flags, Mut: "lenfield"})
			}
		}
		if e.HasType || e.Part == "frame" {
			pos := 0
			if e.Part == "frame" {
				pos = 4
			}
			for tb := 0; tb < 256; tb++ {
				m := append([]byte{}, in...)
				if pos < len(m) {
					m[pos] = byte(tb)
				}
				run(vfCaseC08{Entry: e.Name, Input: m, Flags: flags, Mut: "typebyte"})
			}
		}
		if e.Part == "attrbody" {
			for fi := 0; fi < 32; fi++ {
				run(vfCaseC08{Entry: e.Name, Input: append([]byte{}, in...), Flags: vfAttrFlagsFromIndex(fi), Mut: "flags"})
			}
		}
	}
	vfAddExtra("systematic_inputs", n)
	if n > 0 {
		ctx.NonTrivial()
	}
	ctx.Class("kind=" + vfTypeName(p.Type))
}

func TestVerifC08(t *testing.T) {
	t.Run("raw", func(t *testing.T) { vfDriveSub(t, "raw", vfPropC08) })
	t.Run("systematic", func(t *testing.T) {
		defer vfScaleChecks(100)()
		vfDriveSub(t, "systematic", vfProp[vfCaseC08Sys]{ID: "C08", Run: vfRunC08Sys, Gen: func(rt *rapid.T) vfCaseC08Sys {
			// small packets: the enumeration is quadratic in the encoding length
			p := vfGenC06(rt).Pkt
			cut := func(b []byte, n int) []byte {
				if len(b) > n {
					return b[:n]
				}
				return b
			}
			p.Data, p.Path, p.Path2, p.Handle, p.Msg = cut(p.Data, 48), cut(p.Path, 40), cut(p.Path2, 40), cut(p.Handle, 40), cut(p.Msg, 40)
			return vfCaseC08Sys{Pkt: p}
		}})
	})
}
