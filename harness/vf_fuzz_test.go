package sftp_test

// vf_fuzz_test.go — native coverage-guided fuzz targets (thorough tier only).
// Each target decodes the fuzzer's bytes into a case of an existing property
// and runs the same interpreter, so the semantic oracle is inside the target.
// The case is journaled (and a failing one written out) as replay JSON under
// $VF_FUZZ_OUT, which is how the driver turns a crasher into a replay file.

import (
	"encoding/binary"
	"fmt"
	"os"
	"path/filepath"
	"strconv"
	"syscall"
	"testing"
)

// The address-space limit that makes an unbounded allocation die fast is applied by each fuzz worker to
// itself: the coordinator maps every worker's shared memory and the whole corpus and must not run under it
// (it once died of it, which looked like a finding).
func init() {
	gib, _ := strconv.Atoi(os.Getenv("VF_WORKER_AS_GIB"))
	if gib <= 0 {
		return
	}
	for _, a := range os.Args[1:] {
		if a == "-test.fuzzworker" {
			lim := uint64(gib) << 30
			syscall.Setrlimit(syscall.RLIMIT_AS, &syscall.Rlimit{Cur: lim, Max: lim})
		}
	}
}

// vfWriteAtomic replaces path in one step, so that a reader (or a worker killed mid-write) never sees a
// truncated file.
func vfWriteAtomic(path string, data []byte) {
	tmp := path + ".tmp"
	if os.WriteFile(tmp, data, 0o644) == nil {
		os.Rename(tmp, path)
	}
}

func vfFuzzExec[C any](t *testing.T, p vfProp[C], sub string, c C) {
	out := os.Getenv("VF_FUZZ_OUT")
	data := vfMustJSON(c)
	if out != "" {
		rf := vfReplayFile{Property: p.ID, Key: "CRASH", Msg: "journaled by fuzz worker", Sub: sub, Case: data}
		vfWriteAtomic(filepath.Join(out, fmt.Sprintf("journal-%d.json", os.Getpid())), vfMustJSON(rf))
	}
	ctx := &vfCtx{}
	f := vfProtect(func() { p.Run(ctx, c) })
	if f != nil && f.Key != "INCONCLUSIVE" {
		if out != "" {
			rf := vfReplayFile{Property: p.ID, Key: f.Key, Msg: f.Msg, Sub: sub, Case: data}
			if f.AltCase != nil {
				rf.Sub, rf.Case = f.AltSub, vfMustJSON(f.AltCase)
			}
			vfWriteAtomic(filepath.Join(out, fmt.Sprintf("fail-%d.json", os.Getpid())), vfMustJSON(rf))
		}
		t.Fatalf("VFFAIL property=%s key=%s: %s", p.ID, f.Key, f.Msg)
	}
}

func FuzzVerifC08(f *testing.F) {
	for i, e := range vfC08Entries {
		f.Add(uint8(i), uint32(0x8000000f), uint8(0), []byte{0, 0, 0, 5, 101, 0, 0, 0, 1})
		if e.Part == "frame" {
			f.Add(uint8(i), uint32(0), uint8(1), []byte{0, 4, 0, 1, 3})
			f.Add(uint8(i), uint32(0), uint8(0), []byte{0xff, 0xff, 0xff, 0xff})
		}
	}
	f.Add(uint8(16), uint32(0x80000000), uint8(0), []byte{0x7f, 0xff, 0xff, 0xff})
	f.Add(uint8(22), uint32(0), uint8(0), []byte{0xff, 0xff, 0xff, 0xff, 0, 0, 0, 1})
	f.Fuzz(func(t *testing.T, entry uint8, flags uint32, chunk uint8, data []byte) {
		e := &vfC08Entries[int(entry)%len(vfC08Entries)]
		c := vfCaseC08{Entry: e.Name, Input: data, Flags: flags, Mut: "fuzz"}
		if e.Part == "frame" {
			c.Chunk = []int{0, 1, 2, 3, 4, 5, -1, -2, -3}[chunk%9]
		}
		vfFuzzExec(t, vfPropC08, "raw", c)
	})
}

func FuzzVerifC20(f *testing.F) {
	for i := range vfClientOps {
		f.Add(uint8(i), uint8(0), uint8(101), uint8(1), []byte{0, 0, 0, 4})
		f.Add(uint8(i), uint8(1), uint8(103), uint8(2), []byte{0xff, 0xff, 0xff, 0xff})
		f.Add(uint8(i), uint8(0), uint8(104), uint8(3), []byte{0, 0, 0, 2, 0, 0, 0, 1, 'a'})
	}
	f.Fuzz(func(t *testing.T, op uint8, idx uint8, typ uint8, opts uint8, body []byte) {
		if len(body) > 2048 {
			body = body[:2048]
		}
		o := vfOpts{MaxPacket: []int{16, 64, 100, 1000}[opts%4], Conc: []int{1, 2, 3, 64}[(opts/4)%4], CRead: opts&16 != 0, CWrite: opts&32 != 0, Fstat: opts&64 != 0}
		c := vfCaseC20{Op: vfClientOps[int(op)%len(vfClientOps)].Name, Opts: o, ReplyIdx: int(idx % 12), Mut: vfMut{Kind: "bytes", Val: uint32(typ), Bytes: body}}
		vfFuzzExec(t, vfPropC20, "gen", c)
	})
}

func FuzzVerifC07(f *testing.F) {
	valid := vfEncode(&vfPkt{Type: vfFxpMkdir, ID: 9, Path: []byte("new2")})
	f.Add(uint8(0), valid)
	f.Add(uint8(1), valid[:len(valid)-2])
	f.Add(uint8(2), append(append([]byte{}, valid...), 0, 0, 0, 1, 99))
	f.Add(uint8(3), binary.BigEndian.AppendUint32(nil, 0xffffffff))
	f.Add(uint8(4), vfEncode(&vfPkt{Type: vfFxpExtended, ID: 1, ExtName: []byte(vfExtHardlink), Path: []byte("file")}))
	f.Fuzz(func(t *testing.T, cfg uint8, stream []byte) {
		if len(stream) > 4096 {
			stream = stream[:4096]
		}
		kind := "os"
		if cfg&1 != 0 {
			kind = "rs"
		}
		c := vfCaseC07{Srv: vfSrvCfg{Kind: kind, Alloc: cfg&2 != 0, CloseKeepsRead: cfg&4 != 0, Chunk: []int{0, 1, 7, 0}[(cfg>>3)%4]},
			Sync: []vfReq{{T: "OPEN", P: 0, Pflags: 1}, {T: "OPEN", P: 8, Pflags: 0x1a}, {T: "OPENDIR", P: 1}},
			Tail: []vfReq{{T: "MKDIR", P: 9}}, Mut: vfStreamMut{Kind: "replace", Bytes: stream}}
		vfFuzzExec(t, vfProp[vfCaseC07]{ID: "C07", Run: vfRunC07One}, "one", c)
	})
}
