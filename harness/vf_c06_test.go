package sftp_test

// C06 — the wire encoding is lossless and the two codecs agree.
//
// Three independent implementations: W = packet.go (through the shim),
// X = internal/encoding/ssh/filexfer (+openssh), R = vfwire (reference).

import (
	"bytes"
	"encoding"
	"encoding/binary"
	"fmt"
	"os"
	"path"
	"sync/atomic"
	"testing"

	sftp "github.com/pkg/sftp"
	sshfx "github.com/pkg/sftp/internal/encoding/ssh/filexfer"
	"github.com/pkg/sftp/internal/encoding/ssh/filexfer/openssh"
	"pgregory.net/rapid"
)

type vfCaseC06 struct {
	Pkt vfPkt
	// FI, when present, describes the os.FileInfo values a NAME / ATTRS response
	// is built from (the only way the wire codec builds response attributes).
	FI []vfFI `json:",omitempty"`
}

var vfC06Kinds = []byte{vfFxpInit, vfFxpVersion, vfFxpOpen, vfFxpClose, vfFxpRead, vfFxpWrite, vfFxpLstat, vfFxpFstat,
	vfFxpSetstat, vfFxpFsetstat, vfFxpOpendir, vfFxpReaddir, vfFxpRemove, vfFxpMkdir, vfFxpRmdir, vfFxpRealpath, vfFxpStat,
	vfFxpRename, vfFxpReadlink, vfFxpSymlink, vfFxpStatus, vfFxpHandle, vfFxpData, vfFxpName, vfFxpAttrs, vfFxpExtended,
	vfFxpExtended, vfFxpExtended, vfFxpExtended, vfFxpExtendedReply}

func vfGenC06(t *rapid.T) vfCaseC06 {
	ki := rapid.IntRange(0, len(vfC06Kinds)-1).Draw(t, "kind")
	return vfGenC06Kind(t, ki, -1)
}

// vfGenC06Kind draws a packet of kind index ki; attrIdx >= 0 forces the
// attribute-flag subset (exhaustive sub-check).
func vfGenC06Kind(t *rapid.T, ki int, attrIdx int) vfCaseC06 {
	var c vfCaseC06
	p := &c.Pkt
	p.Type = vfC06Kinds[ki]
	attrs := func(label string) *vfAttrs {
		if attrIdx >= 0 {
			return vfGenAttrsWithFlags(t, label, vfAttrFlagsFromIndex(attrIdx))
		}
		return vfGenAttrs(t, label)
	}
	if p.Type != vfFxpInit && p.Type != vfFxpVersion {
		p.ID = vfGenU32(t, "id")
	}
	switch p.Type {
	case vfFxpInit, vfFxpVersion:
		p.Version = vfGenU32(t, "version")
		p.Exts = vfGenExts(t, "exts", 4)
	case vfFxpOpen:
		p.Path = vfGenStr(t, "path", true)
		p.Pflags = vfGenU32(t, "pflags")
		p.Attrs = attrs("attrs")
	case vfFxpClose, vfFxpFstat, vfFxpReaddir, vfFxpHandle:
		p.Handle = vfGenStr(t, "handle", true)
	case vfFxpRead:
		p.Handle = vfGenStr(t, "handle", false)
		p.Offset = vfGenU64(t, "offset")
		p.Len = vfGenU32(t, "len")
	case vfFxpWrite:
		p.Handle = vfGenStr(t, "handle", false)
		p.Offset = vfGenU64(t, "offset")
		p.Data = vfGenPayload(t, "data", 40000)
	case vfFxpLstat, vfFxpStat, vfFxpOpendir, vfFxpRemove, vfFxpRmdir, vfFxpRealpath, vfFxpReadlink:
		p.Path = vfGenStr(t, "path", true)
	case vfFxpSetstat:
		p.Path = vfGenStr(t, "path", false)
		p.Attrs = attrs("attrs")
	case vfFxpFsetstat:
		p.Handle = vfGenStr(t, "handle", false)
		p.Attrs = attrs("attrs")
	case vfFxpMkdir:
		p.Path = vfGenStr(t, "path", false)
		if attrIdx >= 0 || rapid.Bool().Draw(t, "mkattrs") {
			p.Attrs = attrs("attrs")
		}
	case vfFxpRename, vfFxpSymlink:
		p.Path = vfGenStr(t, "path", true)
		p.Path2 = vfGenStr(t, "path2", true)
	case vfFxpStatus:
		p.Code = vfGenU32(t, "code")
		p.Msg = vfGenStr(t, "msg", true)
		p.Lang = vfGenStr(t, "lang", false)
	case vfFxpData:
		p.Data = vfGenPayload(t, "data", 40000)
	case vfFxpName:
		n := rapid.IntRange(0, 5).Draw(t, "nnames")
		if attrIdx >= 0 {
			n = 2
		}
		fromFI := attrIdx < 0 && rapid.Bool().Draw(t, "fromfi")
		for i := 0; i < n; i++ {
			if fromFI {
				d := vfGenFI(t, "fi")
				c.FI = append(c.FI, d)
				p.Names = append(p.Names, vfName{Name: d.Name, Long: vfGenStr(t, "long", false), Attrs: vfAttrsOfFI(d)})
			} else {
				p.Names = append(p.Names, vfName{Name: vfGenStr(t, "name", false), Long: vfGenStr(t, "long", false), Attrs: *attrs("nattrs")})
			}
		}
	case vfFxpAttrs:
		if attrIdx < 0 && rapid.Bool().Draw(t, "fromfi") {
			d := vfGenFI(t, "fi")
			c.FI = []vfFI{d}
			a := vfAttrsOfFI(d)
			p.Attrs = &a
		} else {
			p.Attrs = attrs("attrs")
		}
	case vfFxpExtended:
		switch ki - 25 {
		case 0:
			p.ExtName = []byte(vfExtStatVFS)
			p.Path = vfGenStr(t, "path", true)
		case 1:
			p.ExtName = []byte(vfExtPosixRename)
			p.Path = vfGenStr(t, "path", true)
			p.Path2 = vfGenStr(t, "path2", false)
		case 2:
			p.ExtName = []byte(vfExtHardlink)
			p.Path = vfGenStr(t, "path", false)
			p.Path2 = vfGenStr(t, "path2", true)
		default:
			p.ExtName = []byte(vfExtFsync)
			p.Handle = vfGenStr(t, "handle", false)
		}
	case vfFxpExtendedReply:
		for i := 0; i < 11; i++ {
			p.VFS = append(p.VFS, vfGenU64(t, "vfs"))
		}
	}
	return c
}

// ---- W: the wire codec -----------------------------------------------------------

func vfFileStatOf(a *vfAttrs) *sftp.FileStat {
	if a == nil {
		return &sftp.FileStat{}
	}
	fs := &sftp.FileStat{Size: a.Size, Mode: a.Perm, Mtime: a.Mtime, Atime: a.Atime, UID: a.UID, GID: a.GID}
	for _, e := range a.Ext {
		fs.Extended = append(fs.Extended, sftp.StatExtended{ExtType: string(e.Name), ExtData: string(e.Data)})
	}
	return fs
}

func vfAttrsOfFileStat(flags uint32, fs *sftp.FileStat) *vfAttrs {
	a := &vfAttrs{Flags: flags, Size: fs.Size, Perm: fs.Mode, Mtime: fs.Mtime, Atime: fs.Atime, UID: fs.UID, GID: fs.GID}
	for _, e := range fs.Extended {
		a.Ext = append(a.Ext, vfExt{Name: []byte(e.ExtType), Data: []byte(e.ExtData)})
	}
	return a
}

func vfAttrFlags(a *vfAttrs) uint32 {
	if a == nil {
		return 0
	}
	return a.Flags
}

const vfKnownAttrBits = vfAttrSize | vfAttrUIDGID | vfAttrPermissions | vfAttrACModTime | vfAttrExtended

// vfToW builds the wire codec's packet value; ok=false when the logical packet
// is outside what that codec can express (documented in DESIGN C06/FA).
func vfToW(c *vfCaseC06) (encoding.BinaryMarshaler, bool) {
	p := &c.Pkt
	s := func(b []byte) string { return string(b) }
	switch p.Type {
	case vfFxpInit:
		m := &sftp.VfInitPacket{Version: p.Version}
		for _, e := range p.Exts {
			m.Extensions = append(m.Extensions, sftp.VfExtensionPair{Name: s(e.Name), Data: s(e.Data)})
		}
		return m, true
	case vfFxpVersion:
		m := &sftp.VfVersionPacket{Version: p.Version}
		for _, e := range p.Exts {
			m.Extensions = append(m.Extensions, sftp.VfSSHExtPair{Name: s(e.Name), Data: s(e.Data)})
		}
		return m, true
	case vfFxpOpen:
		return &sftp.VfOpenPacket{ID: p.ID, Path: s(p.Path), Pflags: p.Pflags, Flags: vfAttrFlags(p.Attrs), Attrs: vfFileStatOf(p.Attrs)}, true
	case vfFxpClose:
		return &sftp.VfClosePacket{ID: p.ID, Handle: s(p.Handle)}, true
	case vfFxpFstat:
		return &sftp.VfFstatPacket{ID: p.ID, Handle: s(p.Handle)}, true
	case vfFxpReaddir:
		return &sftp.VfReaddirPacket{ID: p.ID, Handle: s(p.Handle)}, true
	case vfFxpRead:
		return &sftp.VfReadPacket{ID: p.ID, Handle: s(p.Handle), Offset: p.Offset, Len: p.Len}, true
	case vfFxpWrite:
		return &sftp.VfWritePacket{ID: p.ID, Handle: s(p.Handle), Offset: p.Offset, Length: uint32(len(p.Data)), Data: p.Data}, true
	case vfFxpLstat:
		return &sftp.VfLstatPacket{ID: p.ID, Path: s(p.Path)}, true
	case vfFxpStat:
		return &sftp.VfStatPacket{ID: p.ID, Path: s(p.Path)}, true
	case vfFxpOpendir:
		return &sftp.VfOpendirPacket{ID: p.ID, Path: s(p.Path)}, true
	case vfFxpRemove:
		return &sftp.VfRemovePacket{ID: p.ID, Filename: s(p.Path)}, true
	case vfFxpRmdir:
		return &sftp.VfRmdirPacket{ID: p.ID, Path: s(p.Path)}, true
	case vfFxpRealpath:
		return &sftp.VfRealpathPacket{ID: p.ID, Path: s(p.Path)}, true
	case vfFxpReadlink:
		return &sftp.VfReadlinkPacket{ID: p.ID, Path: s(p.Path)}, true
	case vfFxpSetstat:
		return &sftp.VfSetstatPacket{ID: p.ID, Path: s(p.Path), Flags: vfAttrFlags(p.Attrs), Attrs: vfFileStatOf(p.Attrs)}, true
	case vfFxpFsetstat:
		return &sftp.VfFsetstatPacket{ID: p.ID, Handle: s(p.Handle), Flags: vfAttrFlags(p.Attrs), Attrs: vfFileStatOf(p.Attrs)}, true
	case vfFxpMkdir:
		// the wire codec carries only the flags word of MKDIR's attributes
		if vfAttrFlags(p.Attrs)&vfKnownAttrBits != 0 {
			return nil, false
		}
		return &sftp.VfMkdirPacket{ID: p.ID, Path: s(p.Path), Flags: vfAttrFlags(p.Attrs)}, true
	case vfFxpRename:
		return &sftp.VfRenamePacket{ID: p.ID, Oldpath: s(p.Path), Newpath: s(p.Path2)}, true
	case vfFxpSymlink:
		return &sftp.VfSymlinkPacket{ID: p.ID, Targetpath: s(p.Path), Linkpath: s(p.Path2)}, true
	case vfFxpStatus:
		return sftp.VfNewStatusPacket(p.ID, p.Code, s(p.Msg), s(p.Lang)), true
	case vfFxpHandle:
		return &sftp.VfHandlePacket{ID: p.ID, Handle: s(p.Handle)}, true
	case vfFxpData:
		return &sftp.VfDataPacket{ID: p.ID, Length: uint32(len(p.Data)), Data: append([]byte{}, p.Data...)}, true
	case vfFxpName:
		if len(c.FI) != len(p.Names) {
			// raw attribute blocks: only the "no attributes" form exists in the wire codec
			m := &sftp.VfNamePacket{ID: p.ID}
			for _, n := range p.Names {
				if n.Attrs.Flags != 0 {
					return nil, false
				}
				m.NameAttrs = append(m.NameAttrs, &sftp.VfNameAttr{Name: s(n.Name), LongName: s(n.Long), Attrs: []any{uint32(0)}})
			}
			return m, true
		}
		m := &sftp.VfNamePacket{ID: p.ID}
		for i, n := range p.Names {
			m.NameAttrs = append(m.NameAttrs, &sftp.VfNameAttr{Name: s(n.Name), LongName: s(n.Long), Attrs: []any{c.FI[i].FileInfo()}})
		}
		return m, true
	case vfFxpAttrs:
		if len(c.FI) != 1 {
			return nil, false
		}
		return sftp.VfNewStatResponse(p.ID, c.FI[0].FileInfo()), true
	case vfFxpExtended:
		switch string(p.ExtName) {
		case vfExtStatVFS:
			return &sftp.VfStatvfsPacket{ID: p.ID, Path: s(p.Path)}, true
		case vfExtPosixRename:
			return &sftp.VfPosixRenamePkt{ID: p.ID, Oldpath: s(p.Path), Newpath: s(p.Path2)}, true
		case vfExtHardlink:
			return &sftp.VfHardlinkPacket{ID: p.ID, Oldpath: s(p.Path), Newpath: s(p.Path2)}, true
		case vfExtFsync:
			return &sftp.VfFsyncPacket{ID: p.ID, Handle: s(p.Handle)}, true
		}
	case vfFxpExtendedReply:
		if len(p.VFS) == 11 {
			v := p.VFS
			return &sftp.StatVFS{ID: p.ID, Bsize: v[0], Frsize: v[1], Blocks: v[2], Bfree: v[3], Bavail: v[4], Files: v[5],
				Ffree: v[6], Favail: v[7], Fsid: v[8], Flag: v[9], Namemax: v[10]}, true
		}
	}
	return nil, false
}

// vfFromW decodes body (type byte + payload) with the wire codec; ok=false when
// that codec has no stand-alone decoder for the type.
func vfFromW(body []byte) (*vfPkt, bool, error) {
	typ := body[0]
	b := body[1:]
	out := &vfPkt{Type: typ}
	bs := func(s string) []byte { return []byte(s) }
	switch typ {
	case vfFxpStatus:
		if len(b) < 8 {
			return nil, true, fmt.Errorf("short (precondition of unmarshalStatus)")
		}
		id := binary.BigEndian.Uint32(b)
		err := sftp.VfUnmarshalStatus(id, b)
		code, msg, lang, ok := sftp.VfStatusFields(err)
		if !ok {
			return nil, true, fmt.Errorf("unmarshalStatus returned %T %v", err, err)
		}
		out.ID, out.Code, out.Msg, out.Lang = id, code, bs(msg), bs(lang)
		return out, true, nil
	case vfFxpData:
		var d sftp.VfDataPacket
		if err := d.UnmarshalBinary(b); err != nil {
			return nil, true, err
		}
		out.ID, out.Data = d.ID, d.Data
		if int(d.Length) != len(d.Data) {
			return nil, true, fmt.Errorf("DATA Length %d != len(Data) %d", d.Length, len(d.Data))
		}
		return out, true, nil
	case vfFxpVersion, vfFxpHandle, vfFxpName, vfFxpAttrs, vfFxpExtendedReply:
		return nil, false, nil
	case vfFxpExtended:
		// the wire codec's server side only knows the three extensions it can
		// advertise; fsync is client-side only (an "other name" for C19).
		if q, _, err := vfDecodeBody(body); err == nil && string(q.ExtName) == vfExtFsync {
			return nil, false, nil
		}
	}
	v, err := sftp.VfMakePacket(typ, b)
	if err != nil {
		return nil, true, err
	}
	attrsOf := func(flags uint32, raw any) (*vfAttrs, error) {
		rb, ok := raw.([]byte)
		if !ok {
			return nil, fmt.Errorf("attrs not raw bytes: %T", raw)
		}
		fs, _, err := sftp.VfUnmarshalFileStat(flags, rb)
		if err != nil {
			return nil, err
		}
		return vfAttrsOfFileStat(flags, fs), nil
	}
	switch m := v.(type) {
	case *sftp.VfInitPacket:
		out.Version = m.Version
		for _, e := range m.Extensions {
			out.Exts = append(out.Exts, vfExt{Name: bs(e.Name), Data: bs(e.Data)})
		}
	case *sftp.VfOpenPacket:
		out.ID, out.Path, out.Pflags = m.ID, bs(m.Path), m.Pflags
		if out.Attrs, err = attrsOf(m.Flags, m.Attrs); err != nil {
			return nil, true, err
		}
	case *sftp.VfClosePacket:
		out.ID, out.Handle = m.ID, bs(m.Handle)
	case *sftp.VfFstatPacket:
		out.ID, out.Handle = m.ID, bs(m.Handle)
	case *sftp.VfReaddirPacket:
		out.ID, out.Handle = m.ID, bs(m.Handle)
	case *sftp.VfReadPacket:
		out.ID, out.Handle, out.Offset, out.Len = m.ID, bs(m.Handle), m.Offset, m.Len
	case *sftp.VfWritePacket:
		out.ID, out.Handle, out.Offset, out.Data = m.ID, bs(m.Handle), m.Offset, m.Data
		if int(m.Length) != len(m.Data) {
			return nil, true, fmt.Errorf("WRITE Length %d != len(Data) %d", m.Length, len(m.Data))
		}
	case *sftp.VfLstatPacket:
		out.ID, out.Path = m.ID, bs(m.Path)
	case *sftp.VfStatPacket:
		out.ID, out.Path = m.ID, bs(m.Path)
	case *sftp.VfOpendirPacket:
		out.ID, out.Path = m.ID, bs(m.Path)
	case *sftp.VfRemovePacket:
		out.ID, out.Path = m.ID, bs(m.Filename)
	case *sftp.VfRmdirPacket:
		out.ID, out.Path = m.ID, bs(m.Path)
	case *sftp.VfRealpathPacket:
		out.ID, out.Path = m.ID, bs(m.Path)
	case *sftp.VfReadlinkPacket:
		out.ID, out.Path = m.ID, bs(m.Path)
	case *sftp.VfSetstatPacket:
		out.ID, out.Path = m.ID, bs(m.Path)
		if out.Attrs, err = attrsOf(m.Flags, m.Attrs); err != nil {
			return nil, true, err
		}
	case *sftp.VfFsetstatPacket:
		out.ID, out.Handle = m.ID, bs(m.Handle)
		if out.Attrs, err = attrsOf(m.Flags, m.Attrs); err != nil {
			return nil, true, err
		}
	case *sftp.VfMkdirPacket:
		out.ID, out.Path = m.ID, bs(m.Path)
		out.Attrs = &vfAttrs{Flags: m.Flags}
	case *sftp.VfRenamePacket:
		out.ID, out.Path, out.Path2 = m.ID, bs(m.Oldpath), bs(m.Newpath)
	case *sftp.VfSymlinkPacket:
		out.ID, out.Path, out.Path2 = m.ID, bs(m.Targetpath), bs(m.Linkpath)
	case *sftp.VfExtendedPacket:
		out.ID, out.ExtName = m.ID, bs(m.ExtendedRequest)
		switch sp := m.SpecificPacket.(type) {
		case *sftp.VfExtStatVFS:
			out.Path = bs(sp.Path)
			if sp.ID != m.ID || sp.ExtendedRequest != m.ExtendedRequest {
				return nil, true, fmt.Errorf("extended inner id/name mismatch")
			}
		case *sftp.VfExtPosixRename:
			out.Path, out.Path2 = bs(sp.Oldpath), bs(sp.Newpath)
			if sp.ID != m.ID {
				return nil, true, fmt.Errorf("extended inner id mismatch")
			}
		case *sftp.VfExtHardlink:
			out.Path, out.Path2 = bs(sp.Oldpath), bs(sp.Newpath)
			if sp.ID != m.ID {
				return nil, true, fmt.Errorf("extended inner id mismatch")
			}
		default:
			return nil, true, fmt.Errorf("extended specific packet %T", sp)
		}
	default:
		return nil, true, fmt.Errorf("makePacket returned %T", v)
	}
	return out, true, nil
}

// ---- X: internal/encoding/ssh/filexfer ---------------------------------------------

func vfXAttrs(a *vfAttrs) sshfx.Attributes {
	if a == nil {
		return sshfx.Attributes{}
	}
	x := sshfx.Attributes{Flags: a.Flags, Size: a.Size, UID: a.UID, GID: a.GID, Permissions: sshfx.FileMode(a.Perm), ATime: a.Atime, MTime: a.Mtime}
	for _, e := range a.Ext {
		x.ExtendedAttributes = append(x.ExtendedAttributes, sshfx.ExtendedAttribute{Type: string(e.Name), Data: string(e.Data)})
	}
	return x
}

func vfAttrsOfX(x *sshfx.Attributes) *vfAttrs {
	a := &vfAttrs{Flags: x.Flags, Size: x.Size, UID: x.UID, GID: x.GID, Perm: uint32(x.Permissions), Atime: x.ATime, Mtime: x.MTime}
	for _, e := range x.ExtendedAttributes {
		a.Ext = append(a.Ext, vfExt{Name: []byte(e.Type), Data: []byte(e.Data)})
	}
	return a
}

func vfXExts(es []vfExt) []*sshfx.ExtensionPair {
	var out []*sshfx.ExtensionPair
	for _, e := range es {
		out = append(out, &sshfx.ExtensionPair{Name: string(e.Name), Data: string(e.Data)})
	}
	return out
}

// vfXEncode renders p with the filexfer codec (full frame).
func vfXEncode(p *vfPkt) ([]byte, bool, error) {
	s := func(b []byte) string { return string(b) }
	var pk sshfx.PacketMarshaller
	switch p.Type {
	case vfFxpInit:
		b, err := (&sshfx.InitPacket{Version: p.Version, Extensions: vfXExts(p.Exts)}).MarshalBinary()
		return b, true, err
	case vfFxpVersion:
		b, err := (&sshfx.VersionPacket{Version: p.Version, Extensions: vfXExts(p.Exts)}).MarshalBinary()
		return b, true, err
	case vfFxpOpen:
		pk = &sshfx.OpenPacket{Filename: s(p.Path), PFlags: p.Pflags, Attrs: vfXAttrs(p.Attrs)}
	case vfFxpClose:
		pk = &sshfx.ClosePacket{Handle: s(p.Handle)}
	case vfFxpFstat:
		pk = &sshfx.FStatPacket{Handle: s(p.Handle)}
	case vfFxpReaddir:
		pk = &sshfx.ReadDirPacket{Handle: s(p.Handle)}
	case vfFxpRead:
		pk = &sshfx.ReadPacket{Handle: s(p.Handle), Offset: p.Offset, Length: p.Len}
	case vfFxpWrite:
		pk = &sshfx.WritePacket{Handle: s(p.Handle), Offset: p.Offset, Data: p.Data}
	case vfFxpLstat:
		pk = &sshfx.LStatPacket{Path: s(p.Path)}
	case vfFxpStat:
		pk = &sshfx.StatPacket{Path: s(p.Path)}
	case vfFxpOpendir:
		pk = &sshfx.OpenDirPacket{Path: s(p.Path)}
	case vfFxpRemove:
		pk = &sshfx.RemovePacket{Path: s(p.Path)}
	case vfFxpRmdir:
		pk = &sshfx.RmdirPacket{Path: s(p.Path)}
	case vfFxpRealpath:
		pk = &sshfx.RealPathPacket{Path: s(p.Path)}
	case vfFxpReadlink:
		pk = &sshfx.ReadLinkPacket{Path: s(p.Path)}
	case vfFxpSetstat:
		pk = &sshfx.SetstatPacket{Path: s(p.Path), Attrs: vfXAttrs(p.Attrs)}
	case vfFxpFsetstat:
		pk = &sshfx.FSetstatPacket{Handle: s(p.Handle), Attrs: vfXAttrs(p.Attrs)}
	case vfFxpMkdir:
		pk = &sshfx.MkdirPacket{Path: s(p.Path), Attrs: vfXAttrs(p.Attrs)}
	case vfFxpRename:
		pk = &sshfx.RenamePacket{OldPath: s(p.Path), NewPath: s(p.Path2)}
	case vfFxpSymlink:
		pk = &sshfx.SymlinkPacket{TargetPath: s(p.Path), LinkPath: s(p.Path2)}
	case vfFxpStatus:
		pk = &sshfx.StatusPacket{StatusCode: sshfx.Status(p.Code), ErrorMessage: s(p.Msg), LanguageTag: s(p.Lang)}
	case vfFxpHandle:
		pk = &sshfx.HandlePacket{Handle: s(p.Handle)}
	case vfFxpData:
		pk = &sshfx.DataPacket{Data: p.Data}
	case vfFxpName:
		np := &sshfx.NamePacket{}
		for _, n := range p.Names {
			np.Entries = append(np.Entries, &sshfx.NameEntry{Filename: s(n.Name), Longname: s(n.Long), Attrs: vfXAttrs(&n.Attrs)})
		}
		pk = np
	case vfFxpAttrs:
		pk = &sshfx.AttrsPacket{Attrs: vfXAttrs(p.Attrs)}
	case vfFxpExtended:
		switch string(p.ExtName) {
		case vfExtStatVFS:
			pk = &openssh.StatVFSExtendedPacket{Path: s(p.Path)}
		case vfExtPosixRename:
			pk = &openssh.POSIXRenameExtendedPacket{OldPath: s(p.Path), NewPath: s(p.Path2)}
		case vfExtHardlink:
			pk = &openssh.HardlinkExtendedPacket{OldPath: s(p.Path), NewPath: s(p.Path2)}
		case vfExtFsync:
			pk = &openssh.FSyncExtendedPacket{Handle: s(p.Handle)}
		default:
			return nil, false, nil
		}
	case vfFxpExtendedReply:
		if len(p.VFS) != 11 {
			return nil, false, nil
		}
		v := p.VFS
		pk = &openssh.StatVFSExtendedReplyPacket{BlockSize: v[0], FragmentSize: v[1], Blocks: v[2], BlocksFree: v[3], BlocksAvail: v[4],
			Files: v[5], FilesFree: v[6], FilesAvail: v[7], FilesystemID: v[8], MountFlags: v[9], MaxNameLength: v[10]}
	default:
		return nil, false, nil
	}
	b, err := sshfx.ComposePacket(pk.MarshalPacket(p.ID, nil))
	return b, true, err
}

var vfXRegisterOnce = func() bool {
	openssh.RegisterExtensionStatVFS()
	openssh.RegisterExtensionPOSIXRename()
	openssh.RegisterExtensionHardlink()
	openssh.RegisterExtensionFSync()
	return true
}()

// vfXDecode decodes body (type byte + payload) with the filexfer codec.
func vfXDecode(body []byte) (*vfPkt, error) {
	typ := body[0]
	out := &vfPkt{Type: typ}
	bs := func(s string) []byte { return []byte(s) }
	switch typ {
	case vfFxpInit:
		var p sshfx.InitPacket
		if err := p.UnmarshalBinary(append([]byte{}, body[1:]...)); err != nil {
			return nil, err
		}
		out.Version = p.Version
		for _, e := range p.Extensions {
			out.Exts = append(out.Exts, vfExt{Name: bs(e.Name), Data: bs(e.Data)})
		}
		return out, nil
	case vfFxpVersion:
		var p sshfx.VersionPacket
		if err := p.UnmarshalBinary(append([]byte{}, body[1:]...)); err != nil {
			return nil, err
		}
		out.Version = p.Version
		for _, e := range p.Extensions {
			out.Exts = append(out.Exts, vfExt{Name: bs(e.Name), Data: bs(e.Data)})
		}
		return out, nil
	}
	if vfIsRequestType(typ) {
		var rp sshfx.RequestPacket
		if err := rp.UnmarshalBinary(body); err != nil {
			return nil, err
		}
		out.ID = rp.RequestID
		if rp.Request == nil || byte(rp.Request.Type()) != typ {
			// the generic request decoder must hand back the packet kind the type byte names (seed F13)
			return nil, fmt.Errorf("type byte %d decoded into %T", typ, rp.Request)
		}
		switch m := rp.Request.(type) {
		case *sshfx.OpenPacket:
			out.Path, out.Pflags, out.Attrs = bs(m.Filename), m.PFlags, vfAttrsOfX(&m.Attrs)
		case *sshfx.ClosePacket:
			out.Handle = bs(m.Handle)
		case *sshfx.FStatPacket:
			out.Handle = bs(m.Handle)
		case *sshfx.ReadDirPacket:
			out.Handle = bs(m.Handle)
		case *sshfx.ReadPacket:
			out.Handle, out.Offset, out.Len = bs(m.Handle), m.Offset, m.Length
		case *sshfx.WritePacket:
			out.Handle, out.Offset, out.Data = bs(m.Handle), m.Offset, m.Data
		case *sshfx.LStatPacket:
			out.Path = bs(m.Path)
		case *sshfx.StatPacket:
			out.Path = bs(m.Path)
		case *sshfx.OpenDirPacket:
			out.Path = bs(m.Path)
		case *sshfx.RemovePacket:
			out.Path = bs(m.Path)
		case *sshfx.RmdirPacket:
			out.Path = bs(m.Path)
		case *sshfx.RealPathPacket:
			out.Path = bs(m.Path)
		case *sshfx.ReadLinkPacket:
			out.Path = bs(m.Path)
		case *sshfx.SetstatPacket:
			out.Path, out.Attrs = bs(m.Path), vfAttrsOfX(&m.Attrs)
		case *sshfx.FSetstatPacket:
			out.Handle, out.Attrs = bs(m.Handle), vfAttrsOfX(&m.Attrs)
		case *sshfx.MkdirPacket:
			out.Path, out.Attrs = bs(m.Path), vfAttrsOfX(&m.Attrs)
		case *sshfx.RenamePacket:
			out.Path, out.Path2 = bs(m.OldPath), bs(m.NewPath)
		case *sshfx.SymlinkPacket:
			out.Path, out.Path2 = bs(m.TargetPath), bs(m.LinkPath)
		case *sshfx.ExtendedPacket:
			out.ExtName = bs(m.ExtendedRequest)
			switch d := m.Data.(type) {
			case *openssh.StatVFSExtendedPacket:
				out.Path = bs(d.Path)
			case *openssh.POSIXRenameExtendedPacket:
				out.Path, out.Path2 = bs(d.OldPath), bs(d.NewPath)
			case *openssh.HardlinkExtendedPacket:
				out.Path, out.Path2 = bs(d.OldPath), bs(d.NewPath)
			case *openssh.FSyncExtendedPacket:
				out.Handle = bs(d.Handle)
			case *sshfx.Buffer:
				out.Raw = append([]byte{}, d.Bytes()...)
			default:
				return nil, fmt.Errorf("extended data %T", d)
			}
		default:
			return nil, fmt.Errorf("request %T", m)
		}
		return out, nil
	}
	var raw sshfx.RawPacket
	if err := raw.UnmarshalBinary(body); err != nil {
		return nil, err
	}
	out.ID = raw.RequestID
	switch typ {
	case vfFxpStatus:
		var m sshfx.StatusPacket
		if err := m.UnmarshalPacketBody(&raw.Data); err != nil {
			return nil, err
		}
		out.Code, out.Msg, out.Lang = uint32(m.StatusCode), bs(m.ErrorMessage), bs(m.LanguageTag)
	case vfFxpHandle:
		var m sshfx.HandlePacket
		if err := m.UnmarshalPacketBody(&raw.Data); err != nil {
			return nil, err
		}
		out.Handle = bs(m.Handle)
	case vfFxpData:
		var m sshfx.DataPacket
		if err := m.UnmarshalPacketBody(&raw.Data); err != nil {
			return nil, err
		}
		out.Data = m.Data
	case vfFxpName:
		var m sshfx.NamePacket
		if err := m.UnmarshalPacketBody(&raw.Data); err != nil {
			return nil, err
		}
		for _, e := range m.Entries {
			out.Names = append(out.Names, vfName{Name: bs(e.Filename), Long: bs(e.Longname), Attrs: *vfAttrsOfX(&e.Attrs)})
		}
	case vfFxpAttrs:
		var m sshfx.AttrsPacket
		if err := m.UnmarshalPacketBody(&raw.Data); err != nil {
			return nil, err
		}
		out.Attrs = vfAttrsOfX(&m.Attrs)
	case vfFxpExtendedReply:
		var m openssh.StatVFSExtendedReplyPacket
		if err := m.UnmarshalPacketBody(&raw.Data); err != nil {
			return nil, err
		}
		out.VFS = []uint64{m.BlockSize, m.FragmentSize, m.Blocks, m.BlocksFree, m.BlocksAvail, m.Files, m.FilesFree, m.FilesAvail,
			m.FilesystemID, m.MountFlags, m.MaxNameLength}
	default:
		return nil, fmt.Errorf("no decoder for type %d", typ)
	}
	return out, nil
}

// ---- the property ----------------------------------------------------------------

func vfRunC06(ctx *vfCtx, c vfCaseC06) {
	p := &c.Pkt
	kind := vfTypeName(p.Type)
	if p.Type == vfFxpExtended {
		kind += ":" + string(p.ExtName)
	}
	ctx.Class("kind=" + kind)
	if len(p.Path)+len(p.Path2)+len(p.Handle)+len(p.Data)+len(p.Msg)+len(p.Lang)+len(p.Exts)+len(p.Names) > 0 || vfAttrFlags(p.Attrs) != 0 || len(p.VFS) > 0 {
		ctx.NonTrivial()
	}
	switch p.Type {
	case vfFxpOpen, vfFxpSetstat, vfFxpFsetstat, vfFxpMkdir, vfFxpAttrs:
		ctx.Class(fmt.Sprintf("attrflags=%#x", vfAttrFlags(p.Attrs)&vfKnownAttrBits))
	}
	if n := len(p.Data); n > 0 {
		switch {
		case n <= 64:
			ctx.Class("payload<=64")
		case n <= 4096:
			ctx.Class("payload<=4096")
		default:
			ctx.Class("payload>4096")
		}
	}

	ref := vfEncode(p)
	// reference self-consistency: length prefix and strict re-decode
	if int(binary.BigEndian.Uint32(ref)) != len(ref)-4 {
		ctx.Failf("harness/ref-length", "reference encoder wrote a wrong length")
	}
	back, _, err := vfDecodeBody(ref[4:])
	if err != nil || !vfPktEqual(back, p) {
		ctx.Failf("harness/ref-roundtrip", "reference codec does not round-trip %s: %v -> %s", vfPktString(p), err, vfPktString(back))
	}

	// (1)+(2) W encodes to the reference bytes, through sendPacket
	if m, ok := vfToW(&c); ok {
		ctx.Class("W-encode")
		got, err := sftp.VfSendBytes(m)
		if err != nil {
			ctx.Failf("C06/W-encode-error/"+kind, "sendPacket(%T) failed: %v", m, err)
		}
		if len(got) < 4 || int(binary.BigEndian.Uint32(got)) != len(got)-4 {
			ctx.Failf("C06/W-length-prefix/"+kind, "length prefix %d but %d bytes follow", binary.BigEndian.Uint32(got), len(got)-4)
		}
		if !bytes.Equal(got, ref) {
			at := vfDiffAt(got, ref)
			ctx.Failf("C06/W-layout/"+kind, "wire codec bytes differ from the draft layout at offset %d:\n got %s\nwant %s\npacket %s", at, vfHex(got), vfHex(ref), vfPktString(p))
		}
		// MarshalBinary alone must give the same body (it is what the packet manager uses for some types)
		if mb, err := m.MarshalBinary(); err == nil && len(mb) >= 4 && !bytes.Equal(mb[4:], ref[4:]) {
			ctx.Failf("C06/W-marshalbinary/"+kind, "MarshalBinary body differs from sendPacket body at %d", vfDiffAt(mb[4:], ref[4:]))
		}
	}
	// (1) X encodes to the reference bytes
	if xb, ok, err := vfXEncode(p); ok {
		ctx.Class("X-encode")
		if err != nil {
			ctx.Failf("C06/X-encode-error/"+kind, "filexfer marshal failed: %v", err)
		}
		if !bytes.Equal(xb, ref) {
			at := vfDiffAt(xb, ref)
			ctx.Failf("C06/X-layout/"+kind, "filexfer bytes differ from the draft layout at offset %d:\n got %s\nwant %s\npacket %s", at, vfHex(xb), vfHex(ref), vfPktString(p))
		}
	}
	// (3) both decoders give back the packet
	body := append([]byte{}, ref[4:]...)
	if w, ok, err := vfFromW(body); ok {
		ctx.Class("W-decode")
		if err != nil {
			ctx.Failf("C06/W-decode-error/"+kind, "wire codec rejects a valid %s: %v\nbytes %s", kind, err, vfHex(ref))
		}
		want := *p
		if p.Type == vfFxpMkdir {
			// the wire codec keeps only the flags word of MKDIR's attributes
			want.Attrs = &vfAttrs{Flags: vfAttrFlags(p.Attrs) &^ vfKnownAttrBits}
			if vfAttrFlags(w.Attrs) != vfAttrFlags(p.Attrs) {
				ctx.Failf("C06/W-roundtrip/"+kind, "MKDIR flags word: got %#x want %#x", vfAttrFlags(w.Attrs), vfAttrFlags(p.Attrs))
			}
			w.Attrs = &vfAttrs{Flags: vfAttrFlags(w.Attrs) &^ vfKnownAttrBits}
		}
		if !vfPktEqual(w, &want) {
			ctx.Failf("C06/W-roundtrip/"+kind, "wire codec decodes a different packet:\n got %s\nwant %s", vfPktString(w), vfPktString(&want))
		}
	}
	if !bytes.Equal(body, ref[4:]) {
		ctx.Failf("C06/W-decode-mutates-input/"+kind, "decoding modified the input bytes")
	}
	vfC06AttrBlocks(ctx, p, kind)
	x, err := vfXDecode(body)
	ctx.Class("X-decode")
	if err != nil {
		ctx.Failf("C06/X-decode-error/"+kind, "filexfer rejects a valid %s: %v\nbytes %s", kind, err, vfHex(ref))
	}
	if !vfPktEqual(x, p) {
		ctx.Failf("C06/X-roundtrip/"+kind, "filexfer decodes a different packet:\n got %s\nwant %s", vfPktString(x), vfPktString(p))
	}
}

// vfC06AttrBlocks: the wire codec's attribute decoders must consume exactly the
// attribute block and hand back what follows it untouched (name lists rely on it).
func vfC06AttrBlocks(ctx *vfCtx, p *vfPkt, kind string) {
	var blocks []*vfAttrs
	if p.Attrs != nil {
		blocks = append(blocks, p.Attrs)
	}
	for i := range p.Names {
		blocks = append(blocks, &p.Names[i].Attrs)
	}
	sentinel := []byte{0xaa, 0xbb, 0xcc, 0, 0, 0, 9}
	for _, a := range blocks {
		w := &vfW{}
		w.attrs(a)
		in := append(append([]byte{}, w.b...), sentinel...)
		fs, rest, err := sftp.VfUnmarshalAttrs(in)
		if err != nil {
			ctx.Failf("C06/W-attrs-decode-error/"+kind, "unmarshalAttrs rejects a valid attribute block %s: %v", vfHex(w.b), err)
		}
		if !bytes.Equal(rest, sentinel) {
			ctx.Failf("C06/W-attrs-remainder/"+kind, "unmarshalAttrs consumed %d of a %d-byte attribute block (flags %#x): what follows the block is handed back as %s", len(in)-len(rest), len(w.b), a.Flags, vfHex(rest))
		}
		got := vfAttrsOfFileStat(a.Flags, fs)
		if !vfPktEqual(&vfPkt{Type: vfFxpAttrs, Attrs: got}, &vfPkt{Type: vfFxpAttrs, Attrs: a}) {
			ctx.Failf("C06/W-attrs-roundtrip/"+kind, "unmarshalAttrs decodes %+v from the encoding of %+v", *vfNormAttrs(got), *vfNormAttrs(a))
		}
		// the by-flags variant used for requests
		wb := &vfW{}
		wb.attrBody(a)
		in2 := append(append([]byte{}, wb.b...), sentinel...)
		if _, rest2, err := sftp.VfUnmarshalFileStat(a.Flags, in2); err != nil || !bytes.Equal(rest2, sentinel) {
			ctx.Failf("C06/W-attrs-remainder/"+kind, "unmarshalFileStat(flags %#x): err %v, remainder %s", a.Flags, err, vfHex(rest2))
		}
	}
}

var vfPropC06 = vfProp[vfCaseC06]{ID: "C06", Gen: vfGenC06, Run: vfRunC06}

// ---- responses as decoded by the client --------------------------------------------------

type vfCaseC06Client struct {
	Op    string // ReadDir | Stat | Lstat | ReadLink | RealPath | Open | StatVFS | ReadAt | Mkdir
	Reply vfPkt  // the server's reply (id is patched to the request's)
}

func vfGenC06Client(t *rapid.T) vfCaseC06Client {
	c := vfCaseC06Client{Op: rapid.SampledFrom([]string{"ReadDir", "ReadDir", "Stat", "Lstat", "FStat", "ReadLink", "RealPath", "StatVFS", "ReadAt", "Mkdir"}).Draw(t, "op")}
	switch c.Op {
	case "ReadDir":
		c.Reply = vfGenC06Kind(t, 23, -1).Pkt // NAME
		for i := range c.Reply.Names {
			if len(c.Reply.Names[i].Name) == 0 || bytes.ContainsAny(c.Reply.Names[i].Name, "/") {
				c.Reply.Names[i].Name = []byte(fmt.Sprintf("n%d", i))
			}
		}
	case "Stat", "Lstat", "FStat":
		c.Reply = vfGenC06Kind(t, 24, -1).Pkt // ATTRS
	case "ReadLink", "RealPath":
		c.Reply = vfPkt{Type: vfFxpName, Names: []vfName{{Name: vfGenStr(t, "name", true), Long: vfGenStr(t, "long", false), Attrs: *vfGenAttrs(t, "a")}}}
	case "StatVFS":
		c.Reply = vfGenC06Kind(t, 29, -1).Pkt
	case "ReadAt":
		c.Reply = vfPkt{Type: vfFxpData, Data: vfGenPayload(t, "data", 20000)}
	case "Mkdir":
		c.Reply = vfPkt{Type: vfFxpStatus, Code: vfGenU32(t, "code"), Msg: vfGenStr(t, "msg", true), Lang: vfGenStr(t, "lang", false)}
	}
	return c
}

func vfRunC06Client(ctx *vfCtx, c vfCaseC06Client) {
	baseline := vfPkgGoroutineIDs()
	ctx.Class("clientop=" + c.Op)
	var armed atomic.Bool
	s, err := vfStartSession(vfOpts{MaxPacket: 32768, Conc: 2}, func(p *vfPeer, l *vfLink) {
		p.mutate = func(idx int, req *vfPkt, frame []byte) []byte {
			want := map[string]byte{"ReadDir": vfFxpReaddir, "Stat": vfFxpStat, "Lstat": vfFxpLstat, "FStat": vfFxpFstat, "ReadLink": vfFxpReadlink, "RealPath": vfFxpRealpath,
				"StatVFS": vfFxpExtended, "ReadAt": vfFxpRead, "Mkdir": vfFxpMkdir}[c.Op]
			if req.Type == want && armed.CompareAndSwap(true, false) {
				r := c.Reply
				r.ID = req.ID
				return vfEncode(&r)
			}
			return frame
		}
	})
	if err != nil {
		ctx.Failf("harness/handshake", "%v", err)
	}
	r := &c.Reply
	attrDesc := func(a *vfAttrs) string {
		n := vfNormAttrs(a)
		return fmt.Sprintf("size=%d uid=%d gid=%d perm=%#o atime=%d mtime=%d ext=%v", n.Size, n.UID, n.GID, n.Perm, n.Atime, n.Mtime, n.Ext)
	}
	statDesc := func(fs *sftp.FileStat, flags uint32) string {
		return attrDesc(vfAttrsOfFileStat(flags, fs))
	}
	d, res := vfCall(func() (string, error) {
		switch c.Op {
		case "ReadDir":
			armed.Store(true)
			fis, err := s.c.ReadDir("/dir")
			if err != nil {
				ctx.Failf("C06/client-decode-error/NAME", "ReadDir rejects a valid NAME reply with %d entries: %v\nreply %s", len(r.Names), err, vfHex(vfEncode(r)))
			}
			var want []vfName
			for _, n := range r.Names {
				if s := string(n.Name); s != "." && s != ".." {
					want = append(want, n)
				}
			}
			if len(fis) != len(want) {
				ctx.Failf("C06/client-decode/NAME-count", "ReadDir returned %d entries for a NAME reply carrying %d", len(fis), len(want))
			}
			for i, fi := range fis {
				fs := fi.Sys().(*sftp.FileStat)
				if fi.Name() != string(want[i].Name) && fi.Name() != path.Base(string(want[i].Name)) || statDesc(fs, want[i].Attrs.Flags) != attrDesc(&want[i].Attrs) {
					ctx.Failf("C06/client-decode/NAME-entry", "entry %d decoded as %q %s, the reply says %q %s", i, fi.Name(), statDesc(fs, want[i].Attrs.Flags), want[i].Name, attrDesc(&want[i].Attrs))
				}
			}
		case "Stat", "Lstat", "FStat":
			var fi os.FileInfo
			var err error
			switch c.Op {
			case "Stat":
				armed.Store(true)
				fi, err = s.c.Stat("/file")
			case "Lstat":
				armed.Store(true)
				fi, err = s.c.Lstat("/file")
			default:
				f, e := s.c.Open("/file")
				if e != nil {
					return "", e
				}
				armed.Store(true)
				fi, err = f.Stat()
				f.Close()
			}
			if err != nil {
				ctx.Failf("C06/client-decode-error/ATTRS", "%s rejects a valid ATTRS reply: %v\nreply %s", c.Op, err, vfHex(vfEncode(r)))
			}
			if got := statDesc(fi.Sys().(*sftp.FileStat), vfAttrFlags(r.Attrs)); got != attrDesc(r.Attrs) {
				ctx.Failf("C06/client-decode/ATTRS", "%s decoded %s, the reply says %s", c.Op, got, attrDesc(r.Attrs))
			}
		case "ReadLink", "RealPath":
			armed.Store(true)
			var got string
			var err error
			if c.Op == "ReadLink" {
				got, err = s.c.ReadLink("/link")
			} else {
				got, err = s.c.RealPath("x")
			}
			if err != nil || got != string(r.Names[0].Name) {
				ctx.Failf("C06/client-decode/NAME1", "%s returned (%q, %v), the reply names %q", c.Op, got, err, r.Names[0].Name)
			}
		case "StatVFS":
			armed.Store(true)
			v, err := s.c.StatVFS("/")
			if err != nil || v == nil {
				ctx.Failf("C06/client-decode-error/EXTENDED_REPLY", "%v", err)
			}
			got := []uint64{v.Bsize, v.Frsize, v.Blocks, v.Bfree, v.Bavail, v.Files, v.Ffree, v.Favail, v.Fsid, v.Flag, v.Namemax}
			if fmt.Sprint(got) != fmt.Sprint(r.VFS) {
				ctx.Failf("C06/client-decode/EXTENDED_REPLY", "StatVFS decoded %v, the reply carries %v", got, r.VFS)
			}
		case "ReadAt":
			f, e := s.c.Open("/file")
			if e != nil {
				return "", e
			}
			defer f.Close()
			b := make([]byte, len(r.Data)+1)
			armed.Store(true)
			n, _ := f.ReadAt(b[:len(r.Data)], 0)
			if len(r.Data) > 0 && (n != len(r.Data) || !bytes.Equal(b[:n], r.Data)) {
				ctx.Failf("C06/client-decode/DATA", "ReadAt delivered %d bytes (first difference at %d), the DATA reply carries %d", n, vfDiffAt(b[:n], r.Data), len(r.Data))
			}
		case "Mkdir":
			armed.Store(true)
			err := s.c.Mkdir("/zzz")
			switch r.Code {
			case vfFxOK:
				if err != nil {
					ctx.Failf("C06/client-decode/STATUS", "status OK decoded as %v", err)
				}
			case vfFxEOF, vfFxNoSuchFile, vfFxPermissionDenied:
				if vfErrCode(err) != int(r.Code) {
					ctx.Failf("C06/client-decode/STATUS", "status code %d decoded as %v", r.Code, err)
				}
			default:
				code, msg, lang, ok := sftp.VfStatusFields(err)
				if !ok || code != r.Code || msg != string(r.Msg) || lang != string(r.Lang) {
					ctx.Failf("C06/client-decode/STATUS", "status (%d,%q,%q) decoded as (%d,%q,%q) %v", r.Code, r.Msg, r.Lang, code, msg, lang, err)
				}
			}
		}
		return "", nil
	})
	if !vfAwait(ctx, d, c.Op) {
		ctx.Failf("C06/client-decode/hang", "%s never returns\n%s", c.Op, vfDumpRelevant())
	}
	if res.Panic != nil {
		if f, ok := res.Panic.(*vfFailure); ok {
			panic(f)
		}
		ctx.Failf("panic/"+vfPanicSite([]byte(res.Stack)), "%v\n%s", res.Panic, vfTrimStack([]byte(res.Stack)))
	}
	if res.Err != nil {
		ctx.Failf("harness/setup", "%v", res.Err)
	}
	ctx.NonTrivial()
	vfEndSession(ctx, "C06", s, baseline)
}

// ---- frames of live sessions ------------------------------------------------------------------------------
//
// The codec sub-checks above feed packets to the marshallers directly. What a server or a client puts on the
// wire is assembled by more code than that (DATA replies from handler buffers, NAME replies from listings,
// requests written as header + payload), so the same two questions are asked of every frame of generated live
// sessions: is it exactly the reference encoding of the fields it decodes to (nothing missing, nothing after the
// last field - seed C06-c), and does the second codec produce the same bytes for it.

type vfCaseC06Wire struct {
	Side string     // "server": a request program against one of the servers; "client": catalogue operations against the scripted peer
	Prog *vfCaseC02 `json:",omitempty"`
	Ops  []string   `json:",omitempty"`
	Opts vfOpts
}

func vfGenC06Wire(t *rapid.T) vfCaseC06Wire {
	c := vfCaseC06Wire{Side: rapid.SampledFrom([]string{"server", "server", "client"}).Draw(t, "side")}
	if c.Side == "server" {
		p := vfGenC02(t)
		p.Park, p.Release = nil, nil
		c.Prog = &p
		return c
	}
	c.Opts = vfGenSmallOpts(t)
	n := rapid.IntRange(1, 6).Draw(t, "nops")
	for i := 0; i < n; i++ {
		c.Ops = append(c.Ops, vfClientOps[rapid.IntRange(0, len(vfClientOps)-1).Draw(t, "op")].Name)
	}
	return c
}

// vfC06Canonical checks one frame body that decoded cleanly.
func vfC06Canonical(ctx *vfCtx, who string, body []byte) {
	p, rest, err := vfDecodeBody(body)
	if err != nil {
		ctx.Failf("C06/wire/undecodable/"+who, "%s emitted a frame the reference decoder rejects (%v): %s", who, err, vfHex(body))
	}
	name := vfTypeName(p.Type)
	if len(rest) != 0 {
		ctx.Failf("C06/wire/trailing-bytes/"+who+"/"+name, "%s emitted a %s frame with %d bytes after its last field: %s", who, name, len(rest), vfHex(body))
	}
	if ref := vfEncodeBody(p); !bytes.Equal(ref, body) {
		ctx.Failf("C06/wire/not-reference-layout/"+who+"/"+name, "%s emitted a %s frame that differs from the reference encoding of its own fields at byte %d:\nemitted   %s\nreference %s", who, name, vfDiffAt(ref, body), vfHex(body), vfHex(ref))
	}
	if p.Type == vfFxpInit || p.Type == vfFxpVersion {
		return
	}
	if xb, ok, err := vfXEncode(p); ok && err == nil && len(xb) >= 4 && !bytes.Equal(xb[4:], body) {
		ctx.Failf("C06/wire/codecs-disagree/"+who+"/"+name, "%s emitted a %s frame for which the filexfer codec produces other bytes (first difference at %d):\nemitted  %s\nfilexfer %s", who, name, vfDiffAt(xb[4:], body), vfHex(body), vfHex(xb[4:]))
	}
	ctx.Class("wire=" + who + "/" + name)
}

func vfRunC06Wire(ctx *vfCtx, c vfCaseC06Wire) {
	baseline := vfPkgGoroutineIDs()
	sftp.VfResetGlobals()
	if c.Side == "server" {
		ps := vfStartProg(ctx, c.Prog.Srv, c.Prog.IDBase, c.Prog.IDStep)
		defer ps.cleanup()
		complete := true
	phases:
		for _, ph := range c.Prog.Phases {
			for _, r := range ph.Sync {
				before := len(ps.reqs)
				p := ps.env.build(r, ps.id())
				ps.reqs = append(ps.reqs, p)
				ps.srv.Send(p)
				if !ps.srv.AwaitReplies(ctx, len(ps.reqs)) {
					complete = false // missing responses are C02's business
					break phases
				}
				ps.learn(before)
			}
			before := len(ps.reqs)
			var pkts []*vfPkt
			for _, r := range ph.Burst {
				p := ps.env.build(r, ps.id())
				pkts = append(pkts, p)
				ps.reqs = append(ps.reqs, p)
			}
			ps.srv.Send(pkts...)
			if !ps.srv.AwaitReplies(ctx, len(ps.reqs)) {
				complete = false
				break
			}
			ps.learn(before)
		}
		_, bodies, _, _ := ps.srv.Replies()
		ps.srv.Hangup(ctx, "C06/wire")
		who := c.Prog.Srv.Kind
		for _, b := range bodies {
			vfC06Canonical(ctx, who, b)
		}
		if complete && len(bodies) > 3 {
			ctx.NonTrivial()
		}
		vfCheckNoLeak(ctx, "C06/wire/leak", baseline)
		return
	}
	s, err := vfStartSession(c.Opts, func(p *vfPeer, l *vfLink) {
		p.exts = append(p.exts, vfExt{[]byte(vfExtFsync), []byte("1")})
	})
	if err != nil {
		ctx.Failf("harness/handshake", "%v", err)
	}
	for _, name := range c.Ops {
		op := vfClientOpByName[name]
		d, res := vfCall(func() (string, error) { return vfRunOp(s, op) })
		if !vfAwait(ctx, d, name) {
			ctx.Failf("C06/wire/hang", "%s never returns\n%s", name, vfDumpRelevant())
		}
		if res.Panic != nil {
			ctx.Failf("panic/"+vfPanicSite([]byte(res.Stack)), "%v\n%s", res.Panic, vfTrimStack([]byte(res.Stack)))
		}
	}
	vfEndSession(ctx, "C06/wire", s, baseline)
	s.peer.mu.Lock()
	reqs := append([]vfPeerReq{}, s.peer.reqs...)
	s.peer.mu.Unlock()
	for _, r := range reqs {
		if r.Raw != nil {
			vfC06Canonical(ctx, "client", r.Raw)
		}
	}
	if len(reqs) > 2 {
		ctx.NonTrivial()
	}
}

// ---- decoding into reused values --------------------------------------------------------------------------
//
// The filexfer packet types are meant to be decoded into again and again (that is what their hint-reusing
// byte-slice consumer is for). A value that has decoded other packets before must decode the next one exactly
// like a fresh value does (seed C06-e): a sequence of generated packets of one kind goes through ONE value,
// and after every step the value must marshal back to the bytes it was given.

type vfXReusable interface {
	UnmarshalPacketBody(buf *sshfx.Buffer) error
	MarshalPacket(reqid uint32, b []byte) (header, payload []byte, err error)
}

var vfC06ReuseKinds = []struct {
	Type byte
	New  func() vfXReusable
}{
	{vfFxpData, func() vfXReusable { return &sshfx.DataPacket{} }},
	{vfFxpWrite, func() vfXReusable { return &sshfx.WritePacket{} }},
	{vfFxpName, func() vfXReusable { return &sshfx.NamePacket{} }},
	{vfFxpAttrs, func() vfXReusable { return &sshfx.AttrsPacket{} }},
	{vfFxpStatus, func() vfXReusable { return &sshfx.StatusPacket{} }},
	{vfFxpHandle, func() vfXReusable { return &sshfx.HandlePacket{} }},
	{vfFxpOpen, func() vfXReusable { return &sshfx.OpenPacket{} }},
	{vfFxpSetstat, func() vfXReusable { return &sshfx.SetstatPacket{} }},
	{vfFxpRead, func() vfXReusable { return &sshfx.ReadPacket{} }},
	{vfFxpRename, func() vfXReusable { return &sshfx.RenamePacket{} }},
}

type vfCaseC06Reuse struct {
	Kind int // index into vfC06ReuseKinds
	Seq  []vfPkt
}

func vfGenC06Reuse(t *rapid.T) vfCaseC06Reuse {
	c := vfCaseC06Reuse{Kind: rapid.IntRange(0, len(vfC06ReuseKinds)-1).Draw(t, "kind")}
	ki := vfKindIndexOfType(t, []byte{vfC06ReuseKinds[c.Kind].Type})
	n := rapid.IntRange(2, 6).Draw(t, "n")
	for i := 0; i < n; i++ {
		p := vfGenC06Kind(t, ki, -1).Pkt
		if p.Type == vfFxpData || p.Type == vfFxpWrite {
			// long, then short, then in between: lengths that revisit a capacity left behind
			p.Data = vfPRFBytes(uint32(i+1), 0, rapid.SampledFrom([]int{0, 1, 7, 100, 1024, 4096, 5000}).Draw(t, "dlen"))
		}
		c.Seq = append(c.Seq, p)
	}
	return c
}

func vfRunC06Reuse(ctx *vfCtx, c vfCaseC06Reuse) {
	k := vfC06ReuseKinds[c.Kind%len(vfC06ReuseKinds)]
	val := k.New()
	name := vfTypeName(k.Type)
	ctx.Class("reuse=" + name)
	grew := false
	prev := -1
	for i := range c.Seq {
		p := &c.Seq[i]
		if p.Type != k.Type {
			ctx.Failf("harness/reuse-kind", "packet %d has type %d", i, p.Type)
		}
		frame := vfEncode(p)
		body := frame[4:]
		if err := val.UnmarshalPacketBody(sshfx.NewBuffer(append([]byte{}, body[5:]...))); err != nil {
			ctx.Failf("C06/reuse/decode-error/"+name, "a %s value that had decoded %d packets before rejects a valid one: %v\npacket %s", name, i, err, vfHex(frame))
		}
		h, pl, err := val.MarshalPacket(p.ID, nil)
		if err != nil {
			ctx.Failf("C06/reuse/encode-error/"+name, "%v", err)
		}
		back := append(append([]byte{}, h...), pl...)
		if !bytes.Equal(back, frame) {
			ctx.Failf("C06/reuse/"+name, "a %s value that had decoded %d packets before decodes the next one differently from a fresh value (first difference at byte %d):\ngiven   %s\ndecoded %s", name, i, vfDiffAt(back, frame), vfHex(frame), vfHex(back))
		}
		if n := len(p.Data) + len(p.Names) + len(p.Msg) + len(p.Path); prev >= 0 && n > prev {
			grew = true
		} else if prev < 0 || n < prev {
			prev = n
		}
	}
	if grew {
		ctx.NonTrivial()
	}
}

func TestVerifC06(t *testing.T) {
	// exhaustive part: every subset of the five attribute flags for every
	// attribute-bearing packet kind (values drawn from a fixed example seed).
	t.Run("flagsubsets", func(t *testing.T) {
		vfEnumerate(t, "flagsubsets", vfPropC06, func(yield func(vfCaseC06) bool) {
			n := 0
			for ki, k := range vfC06Kinds {
				switch k {
				case vfFxpOpen, vfFxpSetstat, vfFxpFsetstat, vfFxpMkdir, vfFxpName, vfFxpAttrs:
				default:
					continue
				}
				for ai := 0; ai < 32; ai++ {
					for rep := 0; rep < 3; rep++ {
						n++
						ki, ai := ki, ai
						c := rapid.Custom(func(rt *rapid.T) vfCaseC06 { return vfGenC06Kind(rt, ki, ai) }).Example(n)
						if !yield(c) {
							return
						}
					}
				}
			}
			vfSetExtra("flagsubsets_enumerated", n)
		})
	})
	t.Run("gen", func(t *testing.T) { vfDriveSub(t, "gen", vfPropC06) })
	t.Run("reuse", func(t *testing.T) {
		defer vfScaleChecks(10)()
		vfDriveSub(t, "reuse", vfProp[vfCaseC06Reuse]{ID: "C06", Gen: vfGenC06Reuse, Run: vfRunC06Reuse})
	})
	t.Run("wire", func(t *testing.T) {
		defer vfScaleChecks(40)()
		vfDriveSub(t, "wire", vfProp[vfCaseC06Wire]{ID: "C06", Gen: vfGenC06Wire, Run: vfRunC06Wire})
	})
	t.Run("client", func(t *testing.T) {
		defer vfScaleChecks(20)()
		vfDriveSub(t, "client", vfProp[vfCaseC06Client]{ID: "C06", Gen: vfGenC06Client, Run: vfRunC06Client})
	})
}
