package sftp_test

// C10 — the request server is a faithful adapter in both directions.

import (
	"bytes"
	"errors"
	"fmt"
	"io"
	"os"
	"sort"
	"strings"
	"syscall"
	"testing"

	sftp "github.com/pkg/sftp"
	"pgregory.net/rapid"
)

// ---- (A)+(B): dispatch and paths, over the raw wire -----------------------------------

type vfC10Req struct {
	T      string // request kind (vfReq grammar + FSYNC)
	Path   []byte
	Path2  []byte
	H      int // 0 = read handle, 1 = write handle, 2 = dir handle
	Pflags uint32
	AF     int
	Off    int
	Len    int
}

type vfCaseC10 struct {
	Srv  vfSrvCfg
	Reqs []vfC10Req
}

var vfC10Segs = []string{"", ".", "..", "a", "b c", "..a", "a..", "...", "\xff\xfe", "dir", "file", "x\\y"}

func vfGenC10Path(t *rapid.T, label string) []byte {
	if rapid.IntRange(0, 11).Draw(t, label+"empty") == 0 {
		return nil
	}
	n := rapid.IntRange(1, 5).Draw(t, label+"n")
	var sb strings.Builder
	if rapid.Bool().Draw(t, label+"abs") {
		sb.WriteString(strings.Repeat("/", rapid.IntRange(1, 3).Draw(t, label+"lead")))
	}
	for i := 0; i < n; i++ {
		if i > 0 {
			sb.WriteString(strings.Repeat("/", rapid.IntRange(1, 3).Draw(t, label+"sep")))
		}
		seg := rapid.SampledFrom(vfC10Segs).Draw(t, label+"seg")
		if seg == "" && rapid.IntRange(0, 9).Draw(t, label+"long") == 0 {
			seg = strings.Repeat("x", 300)
		}
		sb.WriteString(seg)
	}
	if rapid.IntRange(0, 3).Draw(t, label+"trail") == 0 {
		sb.WriteString("/")
	}
	return []byte(sb.String())
}

func vfGenC10(t *rapid.T) vfCaseC10 {
	c := vfCaseC10{Srv: vfGenSrvCfg(t)}
	c.Srv.Kind = "rs"
	c.Srv.StartDir = string(vfGenC10Path(t, "start"))
	if rapid.IntRange(0, 2).Draw(t, "defaultstart") == 0 {
		c.Srv.StartDir = ""
	}
	n := rapid.IntRange(1, 12).Draw(t, "n")
	kinds := []string{"OPEN", "OPEN", "OPENDIR", "READ", "WRITE", "FSTAT", "FSETSTAT", "READDIR", "LSTAT", "STAT", "SETSTAT", "REMOVE", "MKDIR", "RMDIR",
		"REALPATH", "RENAME", "READLINK", "SYMLINK", "STATVFS", "POSIXRENAME", "HARDLINK", "EXTUNKNOWN"}
	for i := 0; i < n; i++ {
		r := vfC10Req{T: rapid.SampledFrom(kinds).Draw(t, "t")}
		r.Path = vfGenC10Path(t, "p")
		r.Path2 = vfGenC10Path(t, "q")
		r.H = rapid.IntRange(0, 2).Draw(t, "h")
		r.Pflags = uint32(rapid.IntRange(0, 63).Draw(t, "pflags"))
		r.AF = rapid.IntRange(0, 31).Draw(t, "af")
		r.Off = rapid.SampledFrom([]int{0, 1, 7, 100}).Draw(t, "off")
		r.Len = rapid.SampledFrom([]int{0, 1, 5, 64}).Draw(t, "len")
		c.Reqs = append(c.Reqs, r)
	}
	return c
}

// vfRefCleanPath: lexical normalisation of start (+) p written from scratch:
// split on '/', drop "" and ".", pop on "..", never above the root.
func vfRefCleanPath(start, p string) string {
	full := p
	if !strings.HasPrefix(p, "/") {
		full = start + "/" + p
	}
	var stack []string
	for _, seg := range strings.Split(full, "/") {
		switch seg {
		case "", ".":
		case "..":
			if len(stack) > 0 {
				stack = stack[:len(stack)-1]
			}
		default:
			stack = append(stack, seg)
		}
	}
	return "/" + strings.Join(stack, "/")
}

func vfC10CheckPath(ctx *vfCtx, what, got, start, sent string) {
	if !strings.HasPrefix(got, "/") {
		ctx.Failf("C10/path-not-absolute/"+what, "handler saw %q for %q (start %q): not absolute", got, sent, start)
	}
	for _, seg := range strings.Split(got, "/")[1:] {
		if seg == ".." || seg == "." || (seg == "" && got != "/") {
			ctx.Failf("C10/path-not-clean/"+what, "handler saw %q for %q (start %q): contains segment %q", got, sent, start, seg)
		}
	}
	if want := vfRefCleanPath(vfRefCleanPath("/", start), sent); got != want {
		ctx.Failf("C10/path-wrong/"+what, "handler saw %q for %q with start directory %q, the normalised path is %q", got, sent, start, want)
	}
}

func vfRunC10(ctx *vfCtx, c vfCaseC10) {
	baseline := vfPkgGoroutineIDs()
	h := newVfH()
	h.addFile("/rfile", vfPRFBytes(9, 0, 200))
	h.addFile("/wfile", nil)
	h.addDir("/ddir")
	h.addFile("/ddir/e1", []byte("1"))
	srv, err := vfStartSrv(c.Srv, "", h)
	if err != nil {
		ctx.Failf("harness/server", "%v", err)
	}
	start := c.Srv.StartDir
	srv.Init(ctx)
	nreq := 1
	send := func(p *vfPkt) *vfPkt {
		srv.Send(p)
		nreq++
		if !srv.AwaitReplies(ctx, nreq) {
			ctx.Failf("C10/no-reply", "%s got no reply\n%s", vfTypeName(p.Type), vfDumpRelevant())
		}
		pk, _, _, _ := srv.Replies()
		return pk[len(pk)-1]
	}
	// three handles through absolute, clean paths
	id := uint32(10)
	open := func(p *vfPkt) string {
		rep := send(p)
		if rep.Type != vfFxpHandle {
			ctx.Failf("harness/open", "setup open failed: %s", vfPktString(rep))
		}
		return string(rep.Handle)
	}
	handles := []string{
		open(&vfPkt{Type: vfFxpOpen, ID: 1, Path: []byte("/rfile"), Pflags: vfPfRead}),
		open(&vfPkt{Type: vfFxpOpen, ID: 2, Path: []byte("/wfile"), Pflags: vfPfWrite}),
		open(&vfPkt{Type: vfFxpOpendir, ID: 3, Path: []byte("/ddir")}),
	}
	setupObjs := h.Objs()
	hpaths := []string{"/rfile", "/wfile", "/ddir"}
	o := c.Srv.HOpts

	for i, r := range c.Reqs {
		id++
		ctx.Class("req=" + r.T)
		before := len(h.Calls())
		objsBefore := len(h.Objs())
		var counts [3][3]int
		for k, ob := range setupObjs {
			ob.mu.Lock()
			counts[k] = [3]int{ob.reads, ob.writes, ob.lists}
			ob.mu.Unlock()
		}
		p := &vfPkt{ID: id}
		attrs := vfProgAttrs(r.AF&^2, 55)
		sp, sp2 := string(r.Path), string(r.Path2)
		switch r.T {
		case "OPEN":
			p.Type, p.Path, p.Pflags, p.Attrs = vfFxpOpen, r.Path, r.Pflags, attrs
		case "OPENDIR":
			p.Type, p.Path = vfFxpOpendir, r.Path
		case "READ":
			p.Type, p.Handle, p.Offset, p.Len = vfFxpRead, []byte(handles[0]), uint64(r.Off), uint32(r.Len)
		case "WRITE":
			p.Type, p.Handle, p.Offset, p.Data = vfFxpWrite, []byte(handles[1]), uint64(r.Off), vfPRFBytes(id, 0, r.Len)
		case "FSTAT":
			p.Type, p.Handle = vfFxpFstat, []byte(handles[r.H])
		case "FSETSTAT":
			p.Type, p.Handle, p.Attrs = vfFxpFsetstat, []byte(handles[r.H]), attrs
		case "READDIR":
			p.Type, p.Handle = vfFxpReaddir, []byte(handles[2])
		case "LSTAT":
			p.Type, p.Path = vfFxpLstat, r.Path
		case "STAT":
			p.Type, p.Path = vfFxpStat, r.Path
		case "SETSTAT":
			p.Type, p.Path, p.Attrs = vfFxpSetstat, r.Path, attrs
		case "REMOVE":
			p.Type, p.Path = vfFxpRemove, r.Path
		case "MKDIR":
			p.Type, p.Path = vfFxpMkdir, r.Path
		case "RMDIR":
			p.Type, p.Path = vfFxpRmdir, r.Path
		case "REALPATH":
			p.Type, p.Path = vfFxpRealpath, r.Path
		case "RENAME":
			p.Type, p.Path, p.Path2 = vfFxpRename, r.Path, r.Path2
		case "READLINK":
			p.Type, p.Path = vfFxpReadlink, r.Path
		case "SYMLINK":
			p.Type, p.Path, p.Path2 = vfFxpSymlink, r.Path, r.Path2 // first string: target text, second: link path
		case "STATVFS":
			p.Type, p.ExtName, p.Path = vfFxpExtended, []byte(vfExtStatVFS), r.Path
		case "POSIXRENAME":
			p.Type, p.ExtName, p.Path, p.Path2 = vfFxpExtended, []byte(vfExtPosixRename), r.Path, r.Path2
		case "HARDLINK":
			p.Type, p.ExtName, p.Path, p.Path2 = vfFxpExtended, []byte(vfExtHardlink), r.Path, r.Path2
		case "EXTUNKNOWN":
			p.Type, p.ExtName, p.Raw = vfFxpExtended, []byte("nothing@example.com"), r.Path
		}
		rep := send(p)
		if rep.ID != id {
			ctx.Failf("C10/reply-id", "request %d answered with id %d", id, rep.ID)
		}
		calls := h.Calls()[before:]
		desc := fmt.Sprintf("request %d %s path=%q path2=%q pflags=%#x af=%d (start %q, options %+v)", i, r.T, sp, sp2, r.Pflags, r.AF, start, o)
		expectCalls := func(n int) {
			if len(calls) != n {
				var got []string
				for _, cl := range calls {
					got = append(got, cl.Handler+":"+cl.Method)
				}
				ctx.Failf("C10/handler-count/"+r.T, "%s: %d handler invocations %v, want %d", desc, len(calls), got, n)
			}
		}
		expectOne := func(handler, method string) *vfHCall {
			expectCalls(1)
			cl := &calls[0]
			if cl.Handler != handler || cl.Method != method {
				ctx.Failf("C10/wrong-handler/"+r.T, "%s: invoked %s with method %q, the documented route is %s with method %q", desc, cl.Handler, cl.Method, handler, method)
			}
			return cl
		}
		objCalls := func(k int) [3]int {
			ob := setupObjs[k]
			ob.mu.Lock()
			defer ob.mu.Unlock()
			return [3]int{ob.reads - counts[k][0], ob.writes - counts[k][1], ob.lists - counts[k][2]}
		}
		switch r.T {
		case "OPEN":
			fl := r.Pflags
			wr := fl&(vfPfWrite|vfPfAppend|vfPfCreat|vfPfTrunc) != 0
			var cl *vfHCall
			switch {
			case wr && fl&vfPfRead != 0 && o.OpenFile:
				cl = expectOne("OpenFile", "Open")
			case wr:
				cl = expectOne("Filewrite", "Put")
			case fl&vfPfRead != 0:
				cl = expectOne("Fileread", "Get")
			default:
				expectCalls(0)
				if rep.Type != vfFxpStatus || rep.Code == vfFxOK {
					ctx.Failf("C10/open-without-flags", "%s answered %s", desc, vfPktString(rep))
				}
			}
			if cl != nil {
				vfC10CheckPath(ctx, "OPEN", cl.Filepath, start, sp)
				want := sftp.FileOpenFlags{Read: fl&1 != 0, Write: fl&2 != 0, Append: fl&4 != 0, Creat: fl&8 != 0, Trunc: fl&16 != 0, Excl: fl&32 != 0}
				if cl.Pflags != want || cl.Flags != fl {
					ctx.Failf("C10/pflags", "%s: handler saw Pflags %+v (Flags %#x)", desc, cl.Pflags, cl.Flags)
				}
			}
		case "OPENDIR":
			cl := expectOne("Filelist", "List")
			vfC10CheckPath(ctx, "OPENDIR", cl.Filepath, start, sp)
		case "READ":
			expectCalls(0)
			if got := objCalls(0); got != [3]int{1, 0, 0} {
				ctx.Failf("C10/object-calls/READ", "%s: the reader behind the handle saw %v (reads, writes, lists) calls, want exactly one ReadAt", desc, got)
			}
			want := []byte{}
			rf := h.lookup("/rfile")
			rf.mu.Lock()
			cur := len(rf.data)
			if r.Off < cur {
				want = append(want, rf.data[r.Off:minInt(cur, r.Off+r.Len)]...)
			}
			rf.mu.Unlock()
			if r.Off < cur {
				if rep.Type != vfFxpData || !bytes.Equal(rep.Data, want) {
					ctx.Failf("C10/data/READ", "%s: answered %s, want %d bytes at offset %d", desc, vfPktString(rep), len(want), r.Off)
				}
			} else if rep.Type != vfFxpStatus || rep.Code != vfFxEOF {
				ctx.Failf("C10/data/READ", "%s: answered %s, want EOF (offset %d, file has %d bytes)", desc, vfPktString(rep), r.Off, cur)
			}
		case "WRITE":
			expectCalls(0)
			if got := objCalls(1); got != [3]int{0, 1, 0} {
				ctx.Failf("C10/object-calls/WRITE", "%s: the writer behind the handle saw %v calls, want exactly one WriteAt", desc, got)
			}
			f := h.lookup("/wfile")
			f.mu.Lock()
			ok := r.Len == 0 || (len(f.data) >= r.Off+r.Len && bytes.Equal(f.data[r.Off:r.Off+r.Len], p.Data))
			f.mu.Unlock()
			if !ok || rep.Type != vfFxpStatus || rep.Code != vfFxOK {
				ctx.Failf("C10/data/WRITE", "%s: the data did not reach the handler at the sent offset (reply %s)", desc, vfPktString(rep))
			}
		case "READDIR":
			expectCalls(0)
			if got := objCalls(2); got != [3]int{0, 0, 1} {
				ctx.Failf("C10/object-calls/READDIR", "%s: the lister behind the handle saw %v calls, want exactly one ListAt", desc, got)
			}
		case "FSTAT":
			cl := expectOne("Filelist", "Stat")
			if cl.Filepath != hpaths[r.H] {
				ctx.Failf("C10/path-wrong/FSTAT", "%s: handler saw %q, the handle was opened on %q", desc, cl.Filepath, hpaths[r.H])
			}
		case "FSETSTAT", "SETSTAT":
			cl := expectOne("Filecmd", "Setstat")
			if r.T == "FSETSTAT" {
				if cl.Filepath != hpaths[r.H] {
					ctx.Failf("C10/path-wrong/FSETSTAT", "%s: handler saw %q, the handle was opened on %q", desc, cl.Filepath, hpaths[r.H])
				}
			} else {
				vfC10CheckPath(ctx, "SETSTAT", cl.Filepath, start, sp)
			}
			wantF := sftp.FileAttrFlags{Size: attrs.Flags&vfAttrSize != 0, UidGid: false, Permissions: attrs.Flags&vfAttrPermissions != 0, Acmodtime: attrs.Flags&vfAttrACModTime != 0}
			if cl.AFlags != wantF || cl.Flags != attrs.Flags {
				ctx.Failf("C10/attrflags/"+r.T, "%s: handler saw AttrFlags %+v (Flags %#x), sent flags %#x", desc, cl.AFlags, cl.Flags, attrs.Flags)
			}
			w := &vfW{}
			w.attrBody(attrs)
			if !bytes.Equal(cl.Attrs, w.b) {
				ctx.Failf("C10/attrbytes/"+r.T, "%s: handler saw attribute bytes %x, sent %x", desc, cl.Attrs, w.b)
			}
			if a := cl.AttrVal; a == nil || (wantF.Size && a.Size != attrs.Size) || (wantF.Permissions && a.Mode != attrs.Perm) || (wantF.Acmodtime && (a.Atime != attrs.Atime || a.Mtime != attrs.Mtime)) {
				ctx.Failf("C10/attrvalues/"+r.T, "%s: Attributes() = %+v, sent %+v", desc, a, attrs)
			}
		case "LSTAT":
			var cl *vfHCall
			if o.Lstat {
				cl = expectOne("Lstat", "Lstat")
			} else {
				cl = expectOne("Filelist", "Stat")
			}
			vfC10CheckPath(ctx, "LSTAT", cl.Filepath, start, sp)
		case "STAT":
			cl := expectOne("Filelist", "Stat")
			vfC10CheckPath(ctx, "STAT", cl.Filepath, start, sp)
		case "REMOVE", "MKDIR", "RMDIR":
			m := map[string]string{"REMOVE": "Remove", "MKDIR": "Mkdir", "RMDIR": "Rmdir"}[r.T]
			cl := expectOne("Filecmd", m)
			vfC10CheckPath(ctx, r.T, cl.Filepath, start, sp)
		case "RENAME", "HARDLINK":
			m := map[string]string{"RENAME": "Rename", "HARDLINK": "Link"}[r.T]
			cl := expectOne("Filecmd", m)
			vfC10CheckPath(ctx, r.T, cl.Filepath, start, sp)
			vfC10CheckPath(ctx, r.T+"-target", cl.Target, start, sp2)
		case "POSIXRENAME":
			var cl *vfHCall
			if o.PosixRename {
				cl = expectOne("PosixRename", "PosixRename")
			} else {
				cl = expectOne("Filecmd", "Rename")
			}
			vfC10CheckPath(ctx, r.T, cl.Filepath, start, sp)
			vfC10CheckPath(ctx, r.T+"-target", cl.Target, start, sp2)
		case "SYMLINK":
			cl := expectOne("Filecmd", "Symlink")
			if cl.Filepath != sp {
				ctx.Failf("C10/symlink-target-not-verbatim", "%s: handler saw target text %q, sent %q", desc, cl.Filepath, sp)
			}
			vfC10CheckPath(ctx, "SYMLINK-linkpath", cl.Target, start, sp2)
		case "READLINK":
			if o.Readlink {
				cl := expectOne("Readlink", "")
				vfC10CheckPath(ctx, "READLINK", cl.Filepath, start, sp)
			} else {
				cl := expectOne("Filelist", "Readlink")
				vfC10CheckPath(ctx, "READLINK", cl.Filepath, start, sp)
			}
		case "REALPATH":
			if o.RealPath != 0 {
				cl := expectOne("RealPath", "")
				if cl.Filepath != sp {
					ctx.Failf("C10/realpath-arg-not-verbatim", "%s: the custom resolver saw %q, sent %q", desc, cl.Filepath, sp)
				}
				want := "/real" + vfRefCleanPath("/", sp)
				if rep.Type != vfFxpName || len(rep.Names) != 1 || string(rep.Names[0].Name) != want {
					ctx.Failf("C10/realpath-result", "%s: answered %s, the resolver returned %q", desc, vfPktString(rep), want)
				}
			} else {
				expectCalls(0)
				want := vfRefCleanPath(vfRefCleanPath("/", start), sp)
				if rep.Type != vfFxpName || len(rep.Names) != 1 || string(rep.Names[0].Name) != want {
					ctx.Failf("C10/realpath-result", "%s: answered %s, want %q", desc, vfPktString(rep), want)
				}
			}
		case "STATVFS":
			if o.StatVFS {
				cl := expectOne("StatVFS", "StatVFS")
				vfC10CheckPath(ctx, "STATVFS", cl.Filepath, start, sp)
				if rep.Type != vfFxpExtendedReply || len(rep.VFS) != 11 || rep.VFS[0] != 512 || rep.VFS[10] != 255 || rep.VFS[8] != 9 {
					ctx.Failf("C10/statvfs-result", "%s: answered %s", desc, vfPktString(rep))
				}
			} else {
				expectCalls(0)
				if rep.Type != vfFxpStatus || rep.Code != vfFxOpUnsupported {
					ctx.Failf("C10/statvfs-result", "%s: answered %s, want OP_UNSUPPORTED", desc, vfPktString(rep))
				}
			}
		case "EXTUNKNOWN":
			expectCalls(0)
			if rep.Type != vfFxpStatus || rep.Code != vfFxOpUnsupported {
				ctx.Failf("C10/unknown-extended", "%s: answered %s, want OP_UNSUPPORTED", desc, vfPktString(rep))
			}
		}
		// join under any root stays below it
		for _, cl := range calls {
			for _, pth := range []string{cl.Filepath, cl.Target} {
				if pth == "" || (cl.Handler == "Filecmd" && cl.Method == "Symlink" && pth == cl.Filepath) || cl.Handler == "RealPath" {
					continue
				}
				if j := vfRefCleanPath("/", "/srv/root/"+pth); j != "/srv/root" && !strings.HasPrefix(j, "/srv/root/") {
					ctx.Failf("C10/path-escapes", "%s: joined under /srv/root the handler path %q gives %q", desc, pth, j)
				}
			}
		}
		_ = objsBefore
		if strings.Contains(sp, "..") || strings.Contains(sp, "//") || !strings.HasPrefix(sp, "/") || strings.Contains(sp, "/.") {
			ctx.NonTrivial()
		}
	}
	srv.Hangup(ctx, "C10")
	vfCheckNoLeak(ctx, "C10/leak", baseline)
	ctx.Class(fmt.Sprintf("opts=%v", o))
}

// ---- (C): what handlers return reaches the client unchanged in kind ------------------------

type vfCaseC10Err struct {
	Op   string // Mkdir | Open | Create | Stat | ReadDir | Read | Write | ListAt | Rename | Remove | ReadLink | StatVFS | Lstat
	Err  string // entry of the catalogue
	Wrap string // "" | path | link | syscall | fmtw
	// ReadAt/WriteAt ops: bytes the handler's object moves before it returns the error (seed C10-h)
	Partial int `json:",omitempty"`
}

var vfC10ErrNames = []string{"Ok", "EOF", "NoSuchFile", "PermissionDenied", "Failure", "BadMessage", "NoConnection", "ConnectionLost", "OpUnsupported",
	"os.ErrNotExist", "os.ErrPermission", "io.EOF", "ENOENT", "EACCES", "EPERM", "errors.New", "os.ErrExist", "os.ErrInvalid", "EINVAL", "ENOTDIR", "EISDIR"}

func vfC10MakeErr(name, wrap string) (err error, wantCode int, isStd bool) {
	switch name {
	case "Ok":
		err, wantCode = sftp.ErrSSHFxOk, vfFxOK
	case "EOF":
		err, wantCode = sftp.ErrSSHFxEOF, vfFxEOF
	case "NoSuchFile":
		err, wantCode = sftp.ErrSSHFxNoSuchFile, vfFxNoSuchFile
	case "PermissionDenied":
		err, wantCode = sftp.ErrSSHFxPermissionDenied, vfFxPermissionDenied
	case "Failure":
		err, wantCode = sftp.ErrSSHFxFailure, vfFxFailure
	case "BadMessage":
		err, wantCode = sftp.ErrSSHFxBadMessage, vfFxBadMessage
	case "NoConnection":
		err, wantCode = sftp.ErrSSHFxNoConnection, vfFxNoConnection
	case "ConnectionLost":
		err, wantCode = sftp.ErrSSHFxConnectionLost, vfFxConnectionLost
	case "OpUnsupported":
		err, wantCode = sftp.ErrSSHFxOpUnsupported, vfFxOpUnsupported
	case "os.ErrNotExist":
		err, wantCode, isStd = os.ErrNotExist, vfFxNoSuchFile, true
	case "os.ErrPermission":
		err, wantCode, isStd = os.ErrPermission, vfFxPermissionDenied, true
	case "io.EOF":
		err, wantCode, isStd = io.EOF, vfFxEOF, true
	case "ENOENT":
		err, wantCode, isStd = syscall.ENOENT, vfFxNoSuchFile, true
	case "EACCES":
		err, wantCode, isStd = syscall.EACCES, vfFxPermissionDenied, true
	case "EPERM":
		err, wantCode, isStd = syscall.EPERM, vfFxPermissionDenied, true
	case "errors.New":
		err, wantCode = errors.New("vf: some other failure"), vfFxFailure
	case "os.ErrExist":
		err, wantCode = os.ErrExist, vfFxFailure
	case "os.ErrInvalid":
		err, wantCode = os.ErrInvalid, vfFxFailure
	case "EINVAL":
		err, wantCode = syscall.EINVAL, vfFxFailure
	case "ENOTDIR":
		err, wantCode = syscall.ENOTDIR, vfFxFailure
	case "EISDIR":
		err, wantCode = syscall.EISDIR, vfFxFailure
	}
	switch wrap {
	case "path":
		err = &os.PathError{Op: "op", Path: "/p", Err: err}
	case "link":
		err = &os.LinkError{Op: "op", Old: "/a", New: "/b", Err: err}
	case "syscall":
		err = os.NewSyscallError("call", err)
	}
	return
}

func vfRunC10Err(ctx *vfCtx, c vfCaseC10Err) {
	baseline := vfPkgGoroutineIDs()
	inj, wantCode, isStd := vfC10MakeErr(c.Err, c.Wrap)
	if inj == nil {
		ctx.Failf("harness/unknown-error", "%q", c.Err)
	}
	ctx.Class("op=" + c.Op)
	ctx.Class("err=" + c.Err + "/" + c.Wrap)
	h := newVfH()
	h.addFile("/f", vfPRFBytes(3, 0, 100))
	h.addDir("/d")
	h.addFile("/d/x", []byte("x"))
	h.addSymlink("/l", "f")
	var target string
	h.errFor = func(handler, method, p string) error {
		if handler+":"+method == target {
			return inj
		}
		return nil
	}
	cfg := vfSrvCfg{Kind: "rs", HOpts: vfHOpts{OpenFile: true, PosixRename: true, StatVFS: true, Lstat: true, Readlink: false}}
	srv, err := vfStartSrv(cfg, "", h)
	if err != nil {
		ctx.Failf("harness/server", "%v", err)
	}
	cl, err := sftp.NewClientPipe(srv.link.Client, srv.link.Client)
	if err != nil {
		ctx.Failf("harness/client", "%v", err)
	}
	var got error
	d, r := vfCall(func() (string, error) {
		switch c.Op {
		case "Mkdir":
			target = "Filecmd:Mkdir"
			got = cl.Mkdir("/new")
		case "Rename":
			target = "Filecmd:Rename"
			got = cl.Rename("/f", "/g")
		case "PosixRename":
			target = "PosixRename:PosixRename"
			got = cl.PosixRename("/f", "/g")
		case "RemoveDirectory":
			target = "Filecmd:Rmdir"
			got = cl.RemoveDirectory("/d")
		case "Symlink":
			target = "Filecmd:Symlink"
			got = cl.Symlink("/f", "/s")
		case "Chmod":
			target = "Filecmd:Setstat"
			got = cl.Chmod("/f", 0o600)
		case "Open":
			target = "Fileread:Get"
			_, got = cl.Open("/f")
		case "OpenWrite":
			target = "Filewrite:Put"
			_, got = cl.OpenFile("/f", os.O_WRONLY)
		case "Create":
			target = "OpenFile:Open"
			_, got = cl.Create("/c")
		case "Stat":
			target = "Filelist:Stat"
			_, got = cl.Stat("/f")
		case "Lstat":
			target = "Lstat:Lstat"
			_, got = cl.Lstat("/l")
		case "ReadLink":
			target = "Filelist:Readlink"
			_, got = cl.ReadLink("/l")
		case "ReadDir":
			target = "Filelist:List"
			_, got = cl.ReadDir("/d")
		case "StatVFS":
			target = "StatVFS:StatVFS"
			_, got = cl.StatVFS("/")
		// the open succeeds, the error comes from the reader/writer object it returned, alone or behind a
		// partial transfer ("n bytes, then this error"), on read-only, write-only and read+write handles (seed C10-h)
		case "ReadAt", "ReadAt@rw", "WriteAt", "WriteAt@rw":
			var f *sftp.File
			var e error
			switch c.Op {
			case "ReadAt":
				f, e = cl.Open("/f")
			case "WriteAt":
				f, e = cl.OpenFile("/f", os.O_WRONLY)
			default:
				f, e = cl.OpenFile("/f", os.O_RDWR)
			}
			if e != nil {
				return "", fmt.Errorf("open for %s: %v", c.Op, e)
			}
			h.mu.Lock()
			h.ioErr, h.ioErrPartial = inj, c.Partial
			h.mu.Unlock()
			if strings.HasPrefix(c.Op, "ReadAt") {
				_, got = f.ReadAt(make([]byte, 16), 8)
			} else {
				_, got = f.WriteAt(vfPRFBytes(5, 0, 16), 8)
			}
			h.mu.Lock()
			h.ioErr = nil
			h.mu.Unlock()
			f.Close()
		// the handler call succeeds, the error comes from the lister it returned (seed F05)
		case "Stat@ListAt":
			h.listAtErr = func(p string) error { return inj }
			_, got = cl.Stat("/f")
		case "Lstat@ListAt":
			h.listAtErr = func(p string) error { return inj }
			_, got = cl.Lstat("/l")
		case "ReadLink@ListAt":
			h.listAtErr = func(p string) error { return inj }
			_, got = cl.ReadLink("/l")
		case "ReadDir@ListAt":
			h.listAtErr = func(p string) error { return inj }
			_, got = cl.ReadDir("/d")
		}
		return "", nil
	})
	if !vfAwait(ctx, d, c.Op) {
		ctx.Failf("C10/err/hang/"+c.Op, "%s never returns\n%s", c.Op, vfDumpRelevant())
	}
	if r.Panic != nil {
		ctx.Failf("panic/"+vfPanicSite([]byte(r.Stack)), "%v\n%s", r.Panic, vfTrimStack([]byte(r.Stack)))
	}
	if r.Err != nil {
		ctx.Failf("harness/c10-err-setup", "%v", r.Err)
	}
	if strings.HasPrefix(c.Op, "ReadAt") && (wantCode == vfFxOK || (wantCode == vfFxEOF && c.Partial > 0)) {
		// (n > 0, io.EOF) is a reader's way of delivering the last bytes, and an OK status is no answer to a READ
		ctx.Class("skipped-readat-eof")
		wantCode = -9
	}
	if strings.HasSuffix(c.Op, "@ListAt") && (wantCode == vfFxEOF || wantCode == vfFxOK) {
		// (0, io.EOF) from a lister is its way of saying "no entries", and an OK status is no error at all
		ctx.Class("skipped-listat-eof")
		wantCode = -9
	}
	desc := fmt.Sprintf("%s with the handler returning %T %v", c.Op, inj, inj)
	if c.Partial > 0 {
		desc = fmt.Sprintf("%s with the handler's object returning (%d, %T %v)", c.Op, c.Partial, inj, inj)
	}
	key := "C10/error-kind/" + c.Err
	if c.Wrap != "" {
		key += "/" + c.Wrap
	}
	switch wantCode {
	case -9:
	case vfFxOK:
		if got != nil {
			ctx.Failf(key, "%s: the client sees %v, want success (status OK as given)", desc, got)
		}
	case vfFxEOF:
		if !errors.Is(got, io.EOF) {
			ctx.Failf(key, "%s: the client sees %T %v, want io.EOF", desc, got, got)
		}
	case vfFxNoSuchFile:
		if !errors.Is(got, os.ErrNotExist) {
			ctx.Failf(key, "%s: the client sees %T %v, want os.ErrNotExist", desc, got, got)
		}
	case vfFxPermissionDenied:
		if !errors.Is(got, os.ErrPermission) {
			ctx.Failf(key, "%s: the client sees %T %v, want os.ErrPermission", desc, got, got)
		}
	default:
		var se *sftp.StatusError
		if !errors.As(got, &se) || int(se.Code) != wantCode {
			ctx.Failf(key, "%s: the client sees %T %v, want a StatusError with code %d", desc, got, got, wantCode)
		}
		if !isStd && c.Err != "Failure" && wantCode == vfFxFailure && !strings.Contains(got.Error(), inj.Error()) {
			ctx.Failf("C10/error-text/"+c.Err, "%s: the failure seen by the client (%v) does not carry the handler's text", desc, got)
		}
	}
	ctx.NonTrivial()
	d2, _ := vfCall(func() (string, error) { return "", cl.Close() })
	if !vfAwait(ctx, d2, "client close") {
		ctx.Failf("C10/err/close-hangs", "client Close hangs")
	}
	if !vfAwait(ctx, srv.done, "Serve") {
		ctx.Failf("C10/err/serve-hangs", "Serve never returns")
	}
	vfCheckNoLeak(ctx, "C10/leak", baseline)
}

var vfC10ErrOps = []string{"Mkdir", "Rename", "PosixRename", "RemoveDirectory", "Symlink", "Chmod", "Open", "OpenWrite", "Create", "Stat", "Lstat", "ReadLink", "ReadDir", "StatVFS",
	"Stat@ListAt", "Lstat@ListAt", "ReadLink@ListAt", "ReadDir@ListAt", "ReadAt", "ReadAt@rw", "WriteAt", "WriteAt@rw"}

// ---- (D): attributes as given -----------------------------------------------------------------
//
// Whatever os.FileInfo a handler's lister hands out - bare, with the FileInfoUidGid / FileInfoExtendedData
// callbacks, with a *syscall.Stat_t behind Sys(), or several of these at once - must reach a real Client as
// the attribute block the documentation promises (size, mode, times always; owner from the callbacks, else
// from the Stat_t, else absent; extended data when present), by every route a FileInfo travels: STAT, LSTAT,
// FSTAT and a READDIR entry.

type vfCaseC10Attrs struct {
	FI    vfFI
	Via   string // Stat | Lstat | Fstat | ReadDir | ReadDirMany
	Alloc bool
	N     int `json:",omitempty"` // ReadDirMany: entries the handler lists ...
	Short int `json:",omitempty"` // ... handing out at most this many per ListAt call (0 = as many as fit); "listings as given" (seed C10-e)
}

func vfRunC10Attrs(ctx *vfCtx, c vfCaseC10Attrs) {
	baseline := vfPkgGoroutineIDs()
	sftp.VfResetGlobals()
	d := c.FI
	d.Name = []byte("x")
	h := newVfH()
	h.addDir("/d")
	h.addFile("/d/x", []byte("content"))
	fi := d.FileInfo()
	h.infoOverride = map[string]os.FileInfo{"/d/x": fi}
	h.listOverride = map[string][]os.FileInfo{"/d": {fi}}
	if c.Via == "ReadDirMany" {
		var fis []os.FileInfo
		for i := 0; i < c.N; i++ {
			e := d
			e.Name = []byte(fmt.Sprintf("e%04d", i))
			fis = append(fis, e.FileInfo())
		}
		h.listOverride["/d"] = fis
		h.listShort = c.Short
	}
	srv, err := vfStartSrv(vfSrvCfg{Kind: "rs", Alloc: c.Alloc}, "", h)
	if err != nil {
		ctx.Failf("harness/server", "%v", err)
	}
	cl, err := sftp.NewClientPipe(srv.link.Client, srv.link.Client)
	if err != nil {
		ctx.Failf("harness/client", "%v", err)
	}
	var got os.FileInfo
	many := ""
	dn, res := vfCall(func() (string, error) {
		var err error
		switch c.Via {
		case "Stat":
			got, err = cl.Stat("/d/x")
		case "Lstat":
			got, err = cl.Lstat("/d/x")
		case "Fstat":
			var f *sftp.File
			if f, err = cl.Open("/d/x"); err == nil {
				got, err = f.Stat()
				f.Close()
			}
		case "ReadDirMany":
			var fis []os.FileInfo
			if fis, err = cl.ReadDir("/d"); err == nil {
				var names []string
				for _, fi := range fis {
					names = append(names, fi.Name())
				}
				sort.Strings(names)
				for i := 0; i < c.N || i < len(names); i++ {
					if i >= len(names) || i >= c.N || names[i] != fmt.Sprintf("e%04d", i) {
						many = fmt.Sprintf("the handler listed %d entries (at most %d per call), the client got %d: %.200v", c.N, c.Short, len(names), names)
						break
					}
				}
				if len(fis) > 0 {
					got = fis[0]
				}
			}
		default:
			var fis []os.FileInfo
			if fis, err = cl.ReadDir("/d"); err == nil {
				if len(fis) != 1 {
					return "", fmt.Errorf("listing has %d entries, want 1", len(fis))
				}
				got = fis[0]
			}
		}
		return "", err
	})
	if !vfAwait(ctx, dn, c.Via) {
		ctx.Failf("C10/attrs/hang", "%s never returns\n%s", c.Via, vfDumpRelevant())
	}
	if res.Panic != nil {
		ctx.Failf("panic/"+vfPanicSite([]byte(res.Stack)), "%v\n%s", res.Panic, vfTrimStack([]byte(res.Stack)))
	}
	if res.Err != nil {
		ctx.Failf("C10/attrs/error/"+c.Via, "%s of an entry the handler reports failed: %v", c.Via, res.Err)
	}
	if many != "" {
		ctx.Failf("C10/listing-not-as-given", "%s", many)
	}
	if got == nil {
		ctx.Class("via=ReadDirMany empty")
		dc, _ := vfCall(func() (string, error) { return "", cl.Close() })
		vfAwait(ctx, dc, "Close")
		vfAwait(ctx, srv.done, "Serve")
		return
	}
	fs, ok := got.Sys().(*sftp.FileStat)
	if !ok {
		ctx.Failf("C10/attrs/no-filestat", "%s: Sys() is %T", c.Via, got.Sys())
	}
	want := vfAttrsOfFI(d)
	if want.Flags&vfAttrUIDGID == 0 {
		want.UID, want.GID = 0, 0
	}
	g := vfAttrsOfFileStat(want.Flags|vfAttrUIDGID, fs)
	w := want
	w.Flags |= vfAttrUIDGID
	if a, b := vfMustJSON(vfNormAttrs(g)), vfMustJSON(vfNormAttrs(&w)); !bytes.Equal(a, b) {
		ctx.Failf("C10/attrs-not-as-given/"+c.Via, "the handler's entry (owner callbacks %v uid=%d gid=%d; Stat_t %v uid=%d gid=%d; %d extended) reached the client through %s as %s, want %s",
			d.HasOwner, d.UID, d.GID, d.SysStat, d.SUID, d.SGID, len(d.Ext), c.Via, a, b)
	}
	ctx.Class(fmt.Sprintf("via=%s owner=%v stat_t=%v ext=%v", c.Via, d.HasOwner, d.SysStat, len(d.Ext) > 0))
	if d.HasOwner || d.SysStat || len(d.Ext) > 0 {
		ctx.NonTrivial()
	}
	dc, _ := vfCall(func() (string, error) { return "", cl.Close() })
	vfAwait(ctx, dc, "Close")
	if !vfAwait(ctx, srv.done, "Serve") {
		ctx.Failf("C10/attrs/serve-hangs", "Serve never returns")
	}
	vfCheckNoLeak(ctx, "C10/attrs/leak", baseline)
}

func TestVerifC10(t *testing.T) {
	t.Run("wire", func(t *testing.T) { vfDriveSub(t, "wire", vfProp[vfCaseC10]{ID: "C10", Gen: vfGenC10, Run: vfRunC10}) })
	t.Run("attrs", func(t *testing.T) {
		defer vfScaleChecks(4)()
		vfDriveSub(t, "attrs", vfProp[vfCaseC10Attrs]{ID: "C10", Run: vfRunC10Attrs, Gen: func(rt *rapid.T) vfCaseC10Attrs {
			c := vfCaseC10Attrs{FI: vfGenFI(rt, "fi"), Via: rapid.SampledFrom([]string{"Stat", "Lstat", "Fstat", "ReadDir", "ReadDirMany"}).Draw(rt, "via"), Alloc: rapid.Bool().Draw(rt, "alloc")}
			if c.Via == "ReadDirMany" {
				c.N = rapid.SampledFrom([]int{0, 1, 2, 35, 99, 100, 101, 250}).Draw(rt, "n")
				c.Short = rapid.SampledFrom([]int{0, 1, 10, 100}).Draw(rt, "short")
			}
			return c
		}})
	})
	t.Run("errors", func(t *testing.T) {
		// the catalogue is finite: enumerate operation x error x wrapper
		vfEnumerate(t, "errors", vfProp[vfCaseC10Err]{ID: "C10", Run: vfRunC10Err}, func(yield func(vfCaseC10Err) bool) {
			n := 0
			for _, op := range vfC10ErrOps {
				for _, e := range vfC10ErrNames {
					for _, w := range []string{"", "path", "link", "syscall"} {
						std := strings.Contains(e, ".") || (strings.HasPrefix(e, "E") && e != "EOF")
						if w != "" && !std {
							continue // os wrappers only around os/io/syscall errors
						}
						if e == "Ok" && !(op == "Mkdir" || op == "Rename" || op == "PosixRename" || op == "RemoveDirectory" || op == "Symlink" || op == "Chmod" || strings.HasPrefix(op, "WriteAt")) {
							continue // a bare OK status is only a legal success for status-answered requests
						}
						partials := []int{0}
						if strings.HasPrefix(op, "ReadAt") || strings.HasPrefix(op, "WriteAt") {
							partials = []int{0, 5, 16}
						}
						for _, part := range partials {
							n++
							if !vfMine(n) {
								continue
							}
							if !yield(vfCaseC10Err{Op: op, Err: e, Wrap: w, Partial: part}) {
								return
							}
						}
					}
				}
			}
			vfSetExtra("error_catalogue_cases", n)
		})
	})
}
