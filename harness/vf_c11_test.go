package sftp_test

// C11 — handles are unique, die on close, and all resources are released once.

import (
	"errors"
	"fmt"
	"testing"

	"pgregory.net/rapid"
)

type vfEnding struct {
	Kind string // closeall | eof | cut | malformed | readerr
	Cut  int    `json:",omitempty"`
}

type vfCaseC11 struct {
	Srv      vfSrvCfg
	Reqs     []vfReq
	FailOpen bool // request server: the handler fails opens of "dir/b" with an error
	CloseErr bool // request server: every handler object's Close returns an error
	End      vfEnding
	// request server: opens that are still inside their handler when the session ends (seed C11-e): sent
	// without waiting right before the ending, the handler calls are let go only afterwards
	InFlight []vfReq `json:",omitempty"`
}

var vfC11Kinds = []string{"OPEN", "OPEN", "OPEN", "OPENDIR", "OPENDIR", "CLOSE", "CLOSE", "CLOSE", "READ", "WRITE", "FSTAT", "FSETSTAT", "READDIR", "READDIR", "STAT", "FSYNC"}

func vfGenC11Session(t *rapid.T) vfCaseC11 {
	c := vfCaseC11{Srv: vfGenSrvCfg(t)}
	vfMaybeReadOnly(t, &c.Srv)
	c.Srv.CloseKeepsRead = rapid.Bool().Draw(t, "closekeepsread")
	c.FailOpen = rapid.Bool().Draw(t, "failopen")
	c.CloseErr = rapid.IntRange(0, 2).Draw(t, "closeerr") == 0
	n := rapid.IntRange(2, 30).Draw(t, "n")
	if rapid.IntRange(0, 9).Draw(t, "many") == 0 {
		for i := 0; i < 40; i++ {
			c.Reqs = append(c.Reqs, vfReq{T: "OPEN", P: 0, Pflags: 1})
		}
	}
	for i := 0; i < n; i++ {
		r := vfGenReq(t, vfC11Kinds)
		switch r.T {
		case "OPEN":
			r.P = rapid.SampledFrom([]int{0, 0, 2, 3, 8, 11, 1, 13}).Draw(t, "openpath") // existing, creatable, missing parent, directory
			r.Pflags = uint32(rapid.SampledFrom([]int{1, 1, 2, 0x1a, 0x0a, 3}).Draw(t, "pf"))
			r.AF = 0
		case "OPENDIR":
			r.P = rapid.SampledFrom([]int{1, 1, 4, 12, 0, 11}).Draw(t, "dirpath")
		case "CLOSE", "READ", "WRITE", "FSTAT", "FSETSTAT", "READDIR", "FSYNC":
			r.H = rapid.SampledFrom([]int{0, 1, 2, 3, 4, 5, 0, 1, 2, -1, -2, -3, -4, -5, -6, -7}).Draw(t, "h")
			if r.T == "FSETSTAT" {
				r.AF = rapid.SampledFrom([]int{0, 4, 8, 12}).Draw(t, "af")
			}
			if r.T == "READ" || r.T == "WRITE" {
				r.Len = rapid.SampledFrom([]int{1, 10}).Draw(t, "len")
				r.Off = rapid.SampledFrom([]int{0, 3}).Draw(t, "off")
			}
		}
		c.Reqs = append(c.Reqs, r)
	}
	return c
}

func vfGenC11(t *rapid.T) vfCaseC11 {
	c := vfGenC11Session(t)
	c.End = vfEnding{Kind: rapid.SampledFrom([]string{"closeall", "eof", "cut", "malformed", "readerr"}).Draw(t, "ending")}
	if c.End.Kind == "cut" {
		c.End.Cut = rapid.IntRange(1, 30).Draw(t, "cut")
	}
	if c.Srv.Kind == "rs" && c.End.Kind != "closeall" && rapid.IntRange(0, 2).Draw(t, "inflight") == 0 {
		n := rapid.IntRange(1, 4).Draw(t, "ninflight")
		for i := 0; i < n; i++ {
			r := vfReq{T: "OPEN", P: rapid.SampledFrom([]int{0, 0, 2, 8, 11}).Draw(t, "ifpath"), Pflags: uint32(rapid.SampledFrom([]int{1, 1, 0x1a, 3}).Draw(t, "ifpf"))}
			if rapid.IntRange(0, 3).Draw(t, "ifdir") == 0 {
				r = vfReq{T: "OPENDIR", P: rapid.SampledFrom([]int{1, 4, 11}).Draw(t, "ifdirpath")}
			}
			c.InFlight = append(c.InFlight, r)
		}
	}
	return c
}

var vfC11Bogus = []string{"0", "999999", "1 ", "-1", "01", " 1", "1\x00", "handle", "18446744073709551617"}

func vfRunC11(ctx *vfCtx, c vfCaseC11) {
	baseline := vfPkgGoroutineIDs()
	kind := c.Srv.Kind
	ctx.Class("server=" + kind)
	ctx.Class("ending=" + c.End.Kind)
	ps := vfStartProg(ctx, c.Srv, 500, 1)
	defer ps.cleanup()
	h := ps.srv.h
	if h != nil && c.FailOpen {
		h.errFor = func(handler, method, p string) error {
			if p == "/dir/b" && (handler == "Fileread" || handler == "Filewrite" || handler == "OpenFile") {
				return errors.New("vf: handler refuses this open")
			}
			if p == "/empty" && handler == "Filelist" && method == "List" {
				return errors.New("vf: handler refuses this opendir")
			}
			return nil
		}
	}
	if h != nil && c.FailOpen {
		// a lister that was handed out and then fails must still be closed (seed C11-g)
		h.listAtErr = func(p string) error {
			if p == "/dir/sub/x" || p == "/dir/sub" {
				return errVfIO
			}
			return nil
		}
	}
	if h != nil && c.CloseErr {
		h.closeErr = errors.New("vf: close reports a late write error")
		ctx.Class("close-returns-error")
	}
	fdBase := 0
	if ps.root != "" {
		fdBase = len(vfOpenFDsBelow(ps.root))
	}
	live := map[string]bool{}
	issued := map[string]bool{}
	openCall := map[string]int{} // handle -> index of the handler call that opened it
	maxLive, staleUses, failedOpens := 0, 0, 0
	for i, r := range c.Reqs {
		p := ps.env.build(r, ps.id())
		if r.H < -2 && p.Handle != nil {
			p.Handle = []byte(vfC11Bogus[(-r.H)%len(vfC11Bogus)])
			if string(p.ExtName) == vfExtFsync || p.Type != vfFxpExtended {
				// keep
			}
		}
		takesHandle := false
		switch p.Type {
		case vfFxpClose, vfFxpRead, vfFxpWrite, vfFxpFstat, vfFxpFsetstat, vfFxpReaddir:
			takesHandle = true
		}
		stale := takesHandle && !live[string(p.Handle)]
		callsBefore := 0
		var snapBefore []vfTreeEntry
		if stale {
			staleUses++
			ctx.Class("stale=" + r.T)
			if h != nil {
				callsBefore = len(h.Calls())
			} else {
				snapBefore = vfSnapshot(ps.root)
			}
		}
		if h != nil && (p.Type == vfFxpOpen || p.Type == vfFxpOpendir) {
			callsBefore = len(h.Calls())
		}
		ps.reqs = append(ps.reqs, p)
		ps.srv.Send(p)
		if !ps.srv.AwaitReplies(ctx, len(ps.reqs)) {
			ctx.Failf("C11/no-reply/"+kind, "request %d (%s) got no reply\n%s", i, r.T, vfDumpRelevant())
		}
		pk, _, _, _ := ps.srv.Replies()
		rep := pk[len(pk)-1]
		if rep.ID != p.ID {
			ctx.Failf("C11/reply-id/"+kind, "request %d (%s id %d) answered with id %d", i, r.T, p.ID, rep.ID)
		}
		switch {
		case rep.Type == vfFxpHandle:
			hs := string(rep.Handle)
			if issued[hs] {
				ctx.Failf("C11/handle-reused/"+kind, "request %d: handle %q was already issued earlier in this session (live now: %v)", i, hs, live[hs])
			}
			issued[hs], live[hs] = true, true
			ps.env.handles = append(ps.env.handles, hs)
			if h != nil {
				openCall[hs] = callsBefore
			}
			if len(live) > maxLive {
				maxLive = len(live)
			}
		case p.Type == vfFxpOpen || p.Type == vfFxpOpendir:
			failedOpens++
			if rep.Type != vfFxpStatus || rep.Code == vfFxOK {
				ctx.Failf("C11/open-reply/"+kind, "request %d (%s) answered with %s", i, r.T, vfPktString(rep))
			}
			if h != nil {
				// the context handed to a failed open must be cancelled at once
				for _, cl := range h.Calls()[callsBefore:] {
					if cl.Ctx != nil && cl.Ctx.Err() == nil {
						ctx.Failf("C11/ctx-not-cancelled/failed-open", "the context given to %s(%s) is still live after the open failed", cl.Handler, cl.Filepath)
					}
				}
			}
		}
		if stale {
			if rep.Type != vfFxpStatus || rep.Code == vfFxOK {
				ctx.Failf("C11/stale-handle-accepted/"+kind+"/"+r.T, "request %d: %s naming handle %q (never issued or already closed) was answered with %s", i, r.T, p.Handle, vfPktString(rep))
			}
			if h != nil {
				if n := len(h.Calls()); n != callsBefore {
					cl := h.Calls()[callsBefore]
					ctx.Failf("C11/stale-handle-touches-handler/"+r.T, "request %d: %s naming dead handle %q invoked handler %s %s(%s)", i, r.T, p.Handle, cl.Handler, cl.Method, cl.Filepath)
				}
			} else if d := vfSnapshotDiff(snapBefore, vfSnapshot(ps.root), true); d != "" {
				ctx.Failf("C11/stale-handle-touches-files/"+r.T, "request %d: %s naming dead handle %q changed the tree: %s", i, r.T, p.Handle, d)
			}
		}
		if p.Type == vfFxpClose && !stale {
			closeFails := h != nil && c.CloseErr
			if rep.Type != vfFxpStatus || (rep.Code != vfFxOK) != closeFails {
				ctx.Failf("C11/close-failed/"+kind, "CLOSE of live handle %q answered with %s (the object's Close returns an error: %v)", p.Handle, vfPktString(rep), closeFails)
			}
			hs := string(p.Handle)
			delete(live, hs)
			if h != nil {
				cl := h.Calls()[openCall[hs]]
				if cl.Ctx != nil && cl.Ctx.Err() == nil {
					ctx.Failf("C11/ctx-not-cancelled/close", "the context given to %s(%s) is still live after its handle %q was closed", cl.Handler, cl.Filepath, hs)
				}
				if cl.Obj != nil {
					cl.Obj.mu.Lock()
					closes := cl.Obj.closes
					cl.Obj.mu.Unlock()
					if closes != 1 {
						ctx.Failf("C11/object-closes/at-close", "object of handle %q has been closed %d times after its CLOSE", hs, closes)
					}
				}
			}
		}
	}
	// opens still inside their handler at the ending
	inflightFrom := -1
	if h != nil && len(c.InFlight) > 0 && c.End.Kind != "closeall" {
		inflightFrom = len(h.Calls())
		h.mu.Lock()
		h.parkKinds["Open"] = true
		h.mu.Unlock()
		var pkts []*vfPkt
		for _, r := range c.InFlight {
			pkts = append(pkts, ps.env.build(r, ps.id()))
		}
		ps.srv.Send(pkts...)
		vfSettle(ctx)
		ctx.Class("opens-in-flight-at-the-end")
	}
	// the ending
	openAtEnd := map[string]bool{}
	switch c.End.Kind {
	case "closeall":
		for hs := range live {
			p := &vfPkt{Type: vfFxpClose, ID: ps.id(), Handle: []byte(hs)}
			ps.reqs = append(ps.reqs, p)
			ps.srv.Send(p)
			if !ps.srv.AwaitReplies(ctx, len(ps.reqs)) {
				ctx.Failf("C11/no-reply/"+kind, "final CLOSE got no reply")
			}
		}
		live = map[string]bool{}
		ps.srv.link.C2S.closeWrite()
	case "eof":
		ps.srv.link.C2S.closeWrite()
	case "cut":
		f := vfEncode(&vfPkt{Type: vfFxpStat, ID: 9, Path: []byte("some/long/path/name/for/the/cut")})
		k := c.End.Cut
		if k >= len(f) {
			k = len(f) - 1
		}
		ps.srv.SendRaw(f[:k])
		ps.srv.link.C2S.closeWrite()
	case "malformed":
		ps.srv.SendRaw(vfFrame([]byte{99, 0, 0, 0, 1}))
		vfSettle(ctx)
		ps.srv.link.C2S.closeWrite()
	case "readerr":
		ps.srv.link.C2S.mu.Lock()
		ps.srv.link.C2S.cut = ps.srv.link.C2S.delivered
		ps.srv.link.C2S.cutErr = errVfCut
		ps.srv.link.C2S.mu.Unlock()
		ps.srv.link.C2S.cond.Broadcast()
	}
	for hs := range live {
		openAtEnd[hs] = true
	}
	if inflightFrom >= 0 {
		// the server has seen the end of the stream; only now do the pending opens complete
		vfSettle(ctx)
		h.mu.Lock()
		h.parkKinds["Open"] = false
		h.mu.Unlock()
		h.ReleaseAll()
	}
	if !vfAwait(ctx, ps.srv.done, "Serve to return") {
		ctx.Failf("C11/serve-hangs/"+kind+"/"+c.End.Kind, "Serve never returns after ending %+v\n%s", c.End, vfDumpRelevant())
	}
	vfCheckNoLeak(ctx, "C11/leak/"+kind, baseline)
	if ps.root != "" {
		if fds := vfOpenFDsBelow(ps.root); len(fds) != fdBase {
			ctx.Failf("C11/fd-leak/os/"+c.End.Kind, "after Serve returned (ending %+v, %d handles open) these files are still open: %v", c.End, len(openAtEnd), fds)
		}
	} else {
		byObj := map[*vfHObj]string{}
		for hs, ci := range openCall {
			if o := h.Calls()[ci].Obj; o != nil {
				byObj[o] = hs
			}
		}
		for _, o := range h.Objs() {
			o.mu.Lock()
			closes, terrs, after, okind := o.closes, append([]error{}, o.terrs...), o.afterClose, o.kind
			o.mu.Unlock()
			hs, viaHandle := byObj[o]
			lateOpen := false
			if inflightFrom >= 0 && !viaHandle {
				for _, cl := range h.Calls()[inflightFrom:] {
					if cl.Obj == o {
						lateOpen = true // opened by a request that was still in its handler at the ending
					}
				}
			}
			if closes != 1 {
				ctx.Failf("C11/object-closes/"+okind+"/"+c.End.Kind, "%s object #%d (%s, handle %q) was closed %d times by the time Serve returned", okind, o.id, o.path, hs, closes)
			}
			if after > 0 {
				ctx.Failf("C11/use-after-close/"+okind, "%s object #%d saw %d calls after its Close", okind, o.id, after)
			}
			if okind == "reader" || okind == "writer" || okind == "rw" {
				wantErr := (viaHandle && openAtEnd[hs]) || lateOpen
				switch {
				case wantErr && len(terrs) != 1:
					ctx.Failf("C11/transfer-error/missing/"+c.End.Kind, "%s object of handle %q was still open when the session ended (%+v) but got %d TransferError calls", okind, hs, c.End, len(terrs))
				case wantErr && terrs[0] == nil:
					ctx.Failf("C11/transfer-error/nil", "TransferError(nil) delivered to the object of handle %q", hs)
				case !wantErr && len(terrs) != 0:
					ctx.Failf("C11/transfer-error/spurious/"+c.End.Kind, "%s object #%d (handle %q, closed before the end) got TransferError(%v)", okind, o.id, hs, terrs[0])
				}
			}
		}
		for _, cl := range h.Calls() {
			// the statement covers the contexts handed to open and directory-open handlers
			isOpen := cl.Handler == "Fileread" || cl.Handler == "Filewrite" || cl.Handler == "OpenFile" || (cl.Handler == "Filelist" && cl.Method == "List")
			if isOpen && cl.Ctx != nil && cl.Ctx.Err() == nil {
				ctx.Failf("C11/ctx-not-cancelled/end", "the context given to %s %s(%s) is still live after Serve returned", cl.Handler, cl.Method, cl.Filepath)
			}
		}
	}
	if len(issued) >= 2 && (len(openAtEnd) >= 1 || staleUses >= 1) {
		ctx.NonTrivial()
	}
	ctx.Class(fmt.Sprintf("open-at-end>=%d", minInt(len(openAtEnd), 3)))
	if failedOpens > 0 {
		ctx.Class("failed-opens")
	}
	if maxLive >= 40 {
		ctx.Class("40-handles")
	}
}

// vfRunC11Enum: one generated session under every ending.
func vfRunC11Enum(ctx *vfCtx, c vfCaseC11) {
	var ends []vfEnding
	for _, k := range []string{"closeall", "eof", "malformed", "readerr"} {
		ends = append(ends, vfEnding{Kind: k})
	}
	for k := 1; k < 44; k++ {
		ends = append(ends, vfEnding{Kind: "cut", Cut: k})
	}
	for _, e := range ends {
		one := c
		one.End = e
		vfJournal("C11", "one", vfMustJSON(one))
		sub := &vfCtx{}
		if f := vfProtect(func() { vfRunC11(sub, one) }); f != nil {
			f.AltSub, f.AltCase = "one", one
			panic(f)
		}
	}
	vfAddExtra("endings_enumerated", len(ends))
	ctx.Class("server=" + c.Srv.Kind)
	ctx.NonTrivial()
}

func TestVerifC11(t *testing.T) {
	t.Run("one", func(t *testing.T) { vfDriveSub(t, "one", vfProp[vfCaseC11]{ID: "C11", Gen: vfGenC11, Run: vfRunC11}) })
	t.Run("enum", func(t *testing.T) {
		defer vfScaleChecks(25)()
		vfDriveSub(t, "enum", vfProp[vfCaseC11]{ID: "C11", Gen: vfGenC11Session, Run: vfRunC11Enum})
	})
}
