package sftp_test

// vf_handlers_test.go — instrumented request-server backend: in-memory files
// with atomic ReadAt/WriteAt, a call log, per-object life-cycle counters,
// parking gates (the harness owns the completion order of handler calls) and
// programmable results.

import (
	"context"
	"fmt"
	"io"
	"os"
	"path"
	"sort"
	"strings"
	"sync"
	"time"

	sftp "github.com/pkg/sftp"
)

type vfMemFile struct {
	mu    sync.Mutex
	data  []byte
	dir   bool
	link  string // symlink target ("" = not a symlink)
	mode  os.FileMode
	mtime int64
	uid   uint32
	gid   uint32
	name  string
}

type vfHCall struct {
	Handler  string // Fileread | Filewrite | OpenFile | Filecmd | Filelist | Lstat | PosixRename | StatVFS | RealPath | Readlink
	Method   string
	Filepath string
	Target   string
	Flags    uint32
	Attrs    []byte
	Pflags   sftp.FileOpenFlags
	AFlags   sftp.FileAttrFlags
	AttrVal  *sftp.FileStat
	Ctx      context.Context `json:"-"`
	Obj      *vfHObj         `json:"-"`
	Err      string
}

// vfHObj is an object handed to the request server (reader, writer, rw, lister).
type vfHObj struct {
	h    *vfH
	id   int
	kind string // reader | writer | rw | lister | statlister
	path string
	file *vfMemFile
	list []os.FileInfo
	ctx  context.Context

	mu                   sync.Mutex
	closes               int
	terrs                []error
	inflight             int
	maxInflight          int
	afterClose           int  // ReadAt/WriteAt/ListAt calls that started after Close
	closeWhileBusy       bool // Close invoked while a read/write was in flight
	reads, writes, lists int
	eofMode              string // lister: "with" (EOF together with the last entries) | "after" (on the following call)
	shortBatch           int    // lister: max entries per call (0 = fill the buffer)
}

type vfParked struct {
	Kind    string // ReadAt | WriteAt | ListAt | Filecmd | ...
	Info    string
	Seq     int
	release chan struct{}
}

type vfH struct {
	mu    sync.Mutex
	files map[string]*vfMemFile
	calls []vfHCall
	objs  []*vfHObj
	nobj  int

	// parking: handler calls of the listed kinds wait until released
	parkKinds map[string]bool
	parked    []*vfParked
	nparked   int

	// programmable results
	errFor       func(handler, method, filepath string) error
	realPath     func(p string) (string, error)
	readlink     func(p string) (string, error)
	lookupUser   func(string) string
	statvfs      *sftp.StatVFS
	listEOF      string
	listShort    int
	closeErr     error                    // returned by every object Close (the close still counts)
	ioFailFrom   int64                    // when > 0: ReadAt/WriteAt at or beyond this offset fail (after their gate)
	ioErr        error                    // when set: every ReadAt/WriteAt moves at most ioErrPartial bytes and returns this error with that count
	ioErrPartial int
	listAtErr    func(path string) error  // when it returns an error, the lister for that path fails its ListAt with it (no entries)
	listOverride map[string][]os.FileInfo // directory path -> entries to list verbatim
	infoOverride map[string]os.FileInfo   // path -> the FileInfo Stat/Lstat (and so FSTAT) report verbatim
	log          []string                 // ordered event log: "start WriteAt obj#3", "close obj#3", ...
}

func newVfH() *vfH {
	h := &vfH{files: map[string]*vfMemFile{}, parkKinds: map[string]bool{}}
	h.files["/"] = &vfMemFile{dir: true, mode: os.ModeDir | 0o755, mtime: 1000000000, name: "/"}
	return h
}

func (h *vfH) addFile(p string, data []byte) *vfMemFile {
	f := &vfMemFile{data: append([]byte{}, data...), mode: 0o644, mtime: 1100000000, name: path.Base(p)}
	h.files[p] = f
	return f
}

func (h *vfH) addDir(p string) *vfMemFile {
	f := &vfMemFile{dir: true, mode: os.ModeDir | 0o755, mtime: 1200000000, name: path.Base(p)}
	h.files[p] = f
	return f
}

func (h *vfH) addSymlink(p, target string) *vfMemFile {
	f := &vfMemFile{link: target, mode: os.ModeSymlink | 0o777, mtime: 1300000000, name: path.Base(p)}
	h.files[p] = f
	return f
}

func (h *vfH) event(format string, args ...any) {
	h.mu.Lock()
	h.log = append(h.log, fmt.Sprintf(format, args...))
	h.mu.Unlock()
}

// park blocks the calling handler goroutine until the harness releases it.
func (h *vfH) park(kind, info string) {
	h.mu.Lock()
	if !h.parkKinds[kind] {
		h.mu.Unlock()
		return
	}
	p := &vfParked{Kind: kind, Info: info, Seq: h.nparked, release: make(chan struct{})}
	h.nparked++
	h.parked = append(h.parked, p)
	h.mu.Unlock()
	<-p.release
}

func (h *vfH) Parked() []*vfParked {
	h.mu.Lock()
	defer h.mu.Unlock()
	return append([]*vfParked{}, h.parked...)
}

// Release lets parked call k (index into Parked()) go.
func (h *vfH) Release(p *vfParked) {
	h.mu.Lock()
	for i, q := range h.parked {
		if q == p {
			h.parked = append(h.parked[:i], h.parked[i+1:]...)
			break
		}
	}
	h.mu.Unlock()
	close(p.release)
}

func (h *vfH) ReleaseAll() {
	h.mu.Lock()
	h.parkKinds = map[string]bool{}
	ps := h.parked
	h.parked = nil
	h.mu.Unlock()
	for _, p := range ps {
		close(p.release)
	}
}

func (h *vfH) Calls() []vfHCall {
	h.mu.Lock()
	defer h.mu.Unlock()
	return append([]vfHCall{}, h.calls...)
}

func (h *vfH) Objs() []*vfHObj {
	h.mu.Lock()
	defer h.mu.Unlock()
	return append([]*vfHObj{}, h.objs...)
}

func (h *vfH) record(handler string, r *sftp.Request) *vfHCall {
	c := vfHCall{Handler: handler, Method: r.Method, Filepath: r.Filepath, Target: r.Target, Flags: r.Flags,
		Attrs: append([]byte{}, r.Attrs...), Pflags: r.Pflags(), AFlags: r.AttrFlags(), Ctx: r.Context()}
	if handler == "Filecmd" && r.Method == "Setstat" {
		c.AttrVal = r.Attributes()
	}
	h.mu.Lock()
	h.calls = append(h.calls, c)
	p := &h.calls[len(h.calls)-1]
	h.mu.Unlock()
	return p
}

func (h *vfH) injected(handler string, r *sftp.Request) error {
	if h.errFor == nil {
		return nil
	}
	return h.errFor(handler, r.Method, r.Filepath)
}

func (h *vfH) newObj(kind, p string, f *vfMemFile, r *sftp.Request) *vfHObj {
	h.mu.Lock()
	defer h.mu.Unlock()
	h.nobj++
	o := &vfHObj{h: h, id: h.nobj, kind: kind, path: p, file: f, ctx: r.Context(), eofMode: h.listEOF, shortBatch: h.listShort}
	h.objs = append(h.objs, o)
	return o
}

func (h *vfH) lookup(p string) *vfMemFile {
	h.mu.Lock()
	defer h.mu.Unlock()
	return h.files[p]
}

// resolve follows symlinks.
func (h *vfH) resolve(p string) (string, *vfMemFile) {
	h.mu.Lock()
	defer h.mu.Unlock()
	f := h.files[p]
	for i := 0; f != nil && f.link != "" && i < 8; i++ {
		t := f.link
		if !strings.HasPrefix(t, "/") {
			t = path.Join(path.Dir(p), t)
		}
		p = path.Clean(t)
		f = h.files[p]
	}
	return p, f
}

// ---- the four handlers --------------------------------------------------------------

func (h *vfH) Fileread(r *sftp.Request) (io.ReaderAt, error) {
	c := h.record("Fileread", r)
	h.park("Open", "Fileread "+r.Filepath)
	if err := h.injected("Fileread", r); err != nil {
		c.Err = err.Error()
		return nil, err
	}
	_, f := h.resolve(r.Filepath)
	if f == nil {
		c.Err = "not exist"
		return nil, os.ErrNotExist
	}
	if f.dir {
		c.Err = "is dir"
		return nil, fmt.Errorf("is a directory")
	}
	o := h.newObj("reader", r.Filepath, f, r)
	c.Obj = o
	return vfReaderObj{o}, nil
}

func (h *vfH) openForWrite(handler string, r *sftp.Request) (*vfHObj, error) {
	c := h.record(handler, r)
	h.park("Open", handler+" "+r.Filepath)
	if err := h.injected(handler, r); err != nil {
		c.Err = err.Error()
		return nil, err
	}
	fl := r.Pflags()
	p, f := h.resolve(r.Filepath)
	h.mu.Lock()
	if f == nil {
		if !fl.Creat {
			h.mu.Unlock()
			c.Err = "not exist"
			return nil, os.ErrNotExist
		}
		if par := h.files[path.Dir(p)]; par == nil || !par.dir {
			h.mu.Unlock()
			c.Err = "no parent"
			return nil, os.ErrNotExist
		}
		f = &vfMemFile{mode: 0o644, mtime: 1400000000, name: path.Base(p)}
		h.files[p] = f
	} else if fl.Creat && fl.Excl {
		h.mu.Unlock()
		c.Err = "exists"
		return nil, os.ErrExist
	}
	h.mu.Unlock()
	if f.dir {
		c.Err = "is dir"
		return nil, fmt.Errorf("is a directory")
	}
	if fl.Trunc {
		f.mu.Lock()
		f.data = nil
		f.mu.Unlock()
	}
	kind := "writer"
	if handler == "OpenFile" {
		kind = "rw"
	}
	o := h.newObj(kind, r.Filepath, f, r)
	c.Obj = o
	return o, nil
}

func (h *vfH) Filewrite(r *sftp.Request) (io.WriterAt, error) {
	o, err := h.openForWrite("Filewrite", r)
	if err != nil {
		return nil, err
	}
	return vfWriterObj{o}, nil
}

func (h *vfH) openFile(r *sftp.Request) (sftp.WriterAtReaderAt, error) {
	o, err := h.openForWrite("OpenFile", r)
	if err != nil {
		return nil, err
	}
	return vfRWObj{o}, nil
}

func (h *vfH) Filecmd(r *sftp.Request) error { return h.cmd("Filecmd", r) }

func (h *vfH) posixRename(r *sftp.Request) error { return h.cmd("PosixRename", r) }

func (h *vfH) cmd(handler string, r *sftp.Request) error {
	c := h.record(handler, r)
	h.park("Filecmd", r.Method+" "+r.Filepath)
	if err := h.injected(handler, r); err != nil {
		c.Err = err.Error()
		return err
	}
	err := h.doCmd(r)
	if err != nil {
		c.Err = err.Error()
	}
	return err
}

func (h *vfH) doCmd(r *sftp.Request) error {
	h.mu.Lock()
	defer h.mu.Unlock()
	parentOK := func(p string) bool { par := h.files[path.Dir(p)]; return par != nil && par.dir }
	switch r.Method {
	case "Setstat":
		f := h.files[r.Filepath]
		if f == nil {
			return os.ErrNotExist
		}
		fl := r.AttrFlags()
		a := r.Attributes()
		if a == nil {
			return fmt.Errorf("bad attributes")
		}
		f.mu.Lock()
		defer f.mu.Unlock()
		if fl.Size {
			if a.Size > 1<<24 {
				return fmt.Errorf("too large")
			}
			for uint64(len(f.data)) < a.Size {
				f.data = append(f.data, 0)
			}
			f.data = f.data[:a.Size]
		}
		if fl.Permissions {
			f.mode = f.mode&os.ModeType | a.FileMode()&(os.ModePerm|os.ModeSetuid|os.ModeSetgid|os.ModeSticky)
		}
		if fl.UidGid {
			f.uid, f.gid = a.UID, a.GID
		}
		if fl.Acmodtime {
			f.mtime = int64(a.Mtime)
		}
		return nil
	case "Rename", "PosixRename":
		f := h.files[r.Filepath]
		if f == nil {
			return os.ErrNotExist
		}
		if h.files[r.Target] != nil && r.Method == "Rename" {
			return os.ErrExist
		}
		if !parentOK(r.Target) {
			return os.ErrNotExist
		}
		moved := map[string]*vfMemFile{}
		for k, v := range h.files {
			if k == r.Filepath || strings.HasPrefix(k, r.Filepath+"/") {
				moved[r.Target+k[len(r.Filepath):]] = v
				delete(h.files, k)
			}
		}
		for k, v := range moved {
			v.name = path.Base(k)
			h.files[k] = v
		}
		return nil
	case "Rmdir":
		f := h.files[r.Filepath]
		if f == nil {
			return os.ErrNotExist
		}
		if !f.dir {
			return fmt.Errorf("not a directory")
		}
		for k := range h.files {
			if strings.HasPrefix(k, strings.TrimSuffix(r.Filepath, "/")+"/") && k != r.Filepath {
				return fmt.Errorf("directory not empty")
			}
		}
		delete(h.files, r.Filepath)
		return nil
	case "Mkdir":
		if h.files[r.Filepath] != nil {
			return os.ErrExist
		}
		if !parentOK(r.Filepath) {
			return os.ErrNotExist
		}
		h.files[r.Filepath] = &vfMemFile{dir: true, mode: os.ModeDir | 0o755, mtime: 1500000000, name: path.Base(r.Filepath)}
		return nil
	case "Link":
		f := h.files[r.Filepath]
		if f == nil {
			return os.ErrNotExist
		}
		if h.files[r.Target] != nil {
			return os.ErrExist
		}
		h.files[r.Target] = f
		return nil
	case "Symlink":
		if h.files[r.Target] != nil {
			return os.ErrExist
		}
		if !parentOK(r.Target) {
			return os.ErrNotExist
		}
		h.files[r.Target] = &vfMemFile{link: r.Filepath, mode: os.ModeSymlink | 0o777, mtime: 1600000000, name: path.Base(r.Target)}
		return nil
	case "Remove":
		f := h.files[r.Filepath]
		if f == nil {
			return os.ErrNotExist
		}
		if f.dir {
			return fmt.Errorf("is a directory")
		}
		delete(h.files, r.Filepath)
		return nil
	}
	return fmt.Errorf("vf: unexpected Filecmd method %q", r.Method)
}

func (h *vfH) statVFS(r *sftp.Request) (*sftp.StatVFS, error) {
	c := h.record("StatVFS", r)
	if err := h.injected("StatVFS", r); err != nil {
		c.Err = err.Error()
		return nil, err
	}
	if h.statvfs != nil {
		v := *h.statvfs
		return &v, nil
	}
	return &sftp.StatVFS{Bsize: 512, Frsize: 512, Blocks: 100, Bfree: 50, Bavail: 40, Files: 30, Ffree: 20, Favail: 10, Fsid: 9, Flag: 1, Namemax: 255}, nil
}

type vfMemInfo struct {
	name     string
	size     int64
	mode     os.FileMode
	mtime    int64
	uid, gid uint32
	sys      any // what Sys() returns: nil, or e.g. the *syscall.Stat_t of a real file the entry wraps
}

func (i vfMemInfo) Name() string       { return i.name }
func (i vfMemInfo) Size() int64        { return i.size }
func (i vfMemInfo) Mode() os.FileMode  { return i.mode }
func (i vfMemInfo) ModTime() time.Time { return time.Unix(i.mtime, 0) }
func (i vfMemInfo) IsDir() bool        { return i.mode.IsDir() }
func (i vfMemInfo) Sys() any           { return i.sys }
func (i vfMemInfo) Uid() uint32        { return i.uid }
func (i vfMemInfo) Gid() uint32        { return i.gid }

func (h *vfH) info(name string, f *vfMemFile) os.FileInfo {
	f.mu.Lock()
	defer f.mu.Unlock()
	size := int64(len(f.data))
	if f.link != "" {
		size = int64(len(f.link))
	}
	return vfMemInfo{name: name, size: size, mode: f.mode, mtime: f.mtime, uid: f.uid, gid: f.gid}
}

func (h *vfH) Filelist(r *sftp.Request) (sftp.ListerAt, error) { return h.list("Filelist", r) }
func (h *vfH) lstat(r *sftp.Request) (sftp.ListerAt, error)    { return h.list("Lstat", r) }

func (h *vfH) list(handler string, r *sftp.Request) (sftp.ListerAt, error) {
	c := h.record(handler, r)
	if r.Method == "List" {
		h.park("Open", handler+" List "+r.Filepath)
	}
	if err := h.injected(handler, r); err != nil {
		c.Err = err.Error()
		return nil, err
	}
	switch r.Method {
	case "List":
		_, d := h.resolve(r.Filepath)
		if d == nil {
			c.Err = "not exist"
			return nil, os.ErrNotExist
		}
		if !d.dir {
			c.Err = "not dir"
			return nil, fmt.Errorf("not a directory")
		}
		pre := strings.TrimSuffix(r.Filepath, "/") + "/"
		var names []string
		h.mu.Lock()
		for k := range h.files {
			if k != "/" && strings.HasPrefix(k, pre) && !strings.Contains(k[len(pre):], "/") {
				names = append(names, k)
			}
		}
		h.mu.Unlock()
		sort.Strings(names)
		o := h.newObj("lister", r.Filepath, d, r)
		if ov, ok := h.listOverride[r.Filepath]; ok {
			o.list = append(o.list, ov...)
			c.Obj = o
			return vfListerObj{o}, nil
		}
		for _, k := range names {
			if f := h.lookup(k); f != nil {
				o.list = append(o.list, h.info(path.Base(k), f))
			}
		}
		c.Obj = o
		return vfListerObj{o}, nil
	case "Stat", "Lstat", "Readlink":
		var f *vfMemFile
		if r.Method == "Stat" {
			_, f = h.resolve(r.Filepath)
		} else {
			f = h.lookup(r.Filepath)
		}
		if f == nil {
			c.Err = "not exist"
			return nil, os.ErrNotExist
		}
		if r.Method == "Readlink" && f.link == "" {
			c.Err = "not a link"
			return nil, fmt.Errorf("not a symlink")
		}
		o := h.newObj("statlister", r.Filepath, f, r)
		if ov, ok := h.infoOverride[r.Filepath]; ok && r.Method != "Readlink" {
			o.list = []os.FileInfo{ov}
		} else if r.Method == "Readlink" {
			o.list = []os.FileInfo{vfMemInfo{name: f.link, mode: f.mode}}
		} else {
			o.list = []os.FileInfo{h.info(path.Base(r.Filepath), f)}
		}
		c.Obj = o
		return vfListerObj{o}, nil
	}
	return nil, fmt.Errorf("vf: unexpected Filelist method %q", r.Method)
}

// ---- objects ----------------------------------------------------------------------

func (o *vfHObj) begin(kind string) {
	o.mu.Lock()
	if o.closes > 0 {
		o.afterClose++
	}
	o.inflight++
	if o.inflight > o.maxInflight {
		o.maxInflight = o.inflight
	}
	o.mu.Unlock()
	o.h.event("start %s obj#%d", kind, o.id)
}

func (o *vfHObj) end(kind string) {
	o.h.event("end %s obj#%d", kind, o.id)
	o.mu.Lock()
	o.inflight--
	o.mu.Unlock()
}

var errVfIO = fmt.Errorf("injected i/o failure")

func (o *vfHObj) readAt(b []byte, off int64) (int, error) {
	o.begin("ReadAt")
	defer o.end("ReadAt")
	o.h.park("ReadAt", fmt.Sprintf("obj#%d off=%d len=%d", o.id, off, len(b)))
	o.mu.Lock()
	o.reads++
	o.mu.Unlock()
	if o.h.ioFailFrom > 0 && off >= o.h.ioFailFrom {
		return 0, errVfIO
	}
	o.h.mu.Lock()
	ioErr, ioPart := o.h.ioErr, o.h.ioErrPartial
	o.h.mu.Unlock()
	if ioErr != nil {
		// "n bytes, then this error": the documented io.ReaderAt shape of a partial read
		o.file.mu.Lock()
		defer o.file.mu.Unlock()
		n := 0
		if off < int64(len(o.file.data)) && ioPart > 0 {
			n = copy(b[:min(ioPart, len(b))], o.file.data[off:])
		}
		return n, ioErr
	}
	// like any context-aware backend: a request whose context is gone is not served (seed C14-d) - the
	// package cancels it when the handle is closed or the session ends, never while a call is in progress
	if err := o.ctx.Err(); err != nil {
		return 0, err
	}
	f := o.file
	f.mu.Lock()
	defer f.mu.Unlock()
	if off >= int64(len(f.data)) {
		return 0, io.EOF
	}
	n := copy(b, f.data[off:])
	if n < len(b) {
		return n, io.EOF
	}
	return n, nil
}

func (o *vfHObj) writeAt(b []byte, off int64) (int, error) {
	o.begin("WriteAt")
	defer o.end("WriteAt")
	o.h.park("WriteAt", fmt.Sprintf("obj#%d off=%d len=%d", o.id, off, len(b)))
	o.mu.Lock()
	o.writes++
	o.mu.Unlock()
	if o.h.ioFailFrom > 0 && off >= o.h.ioFailFrom {
		return 0, errVfIO
	}
	o.h.mu.Lock()
	ioErr, ioPart := o.h.ioErr, o.h.ioErrPartial
	o.h.mu.Unlock()
	if ioErr != nil {
		o.file.mu.Lock()
		defer o.file.mu.Unlock()
		n := min(ioPart, len(b))
		if off >= 0 && n > 0 {
			for int64(len(o.file.data)) < off+int64(n) {
				o.file.data = append(o.file.data, 0)
			}
			copy(o.file.data[off:], b[:n])
		}
		return n, ioErr
	}
	if err := o.ctx.Err(); err != nil {
		return 0, err
	}
	if off < 0 || off+int64(len(b)) > 1<<24 {
		return 0, fmt.Errorf("too large")
	}
	f := o.file
	f.mu.Lock()
	defer f.mu.Unlock()
	if len(b) == 0 {
		return 0, nil
	}
	for int64(len(f.data)) < off+int64(len(b)) {
		f.data = append(f.data, make([]byte, off+int64(len(b))-int64(len(f.data)))...)
	}
	copy(f.data[off:], b)
	return len(b), nil
}

func (o *vfHObj) listAt(ls []os.FileInfo, off int64) (int, error) {
	o.begin("ListAt")
	defer o.end("ListAt")
	o.h.park("ListAt", fmt.Sprintf("obj#%d off=%d", o.id, off))
	o.mu.Lock()
	o.lists++
	o.mu.Unlock()
	if o.h.listAtErr != nil {
		if err := o.h.listAtErr(o.path); err != nil {
			return 0, err
		}
	}
	if off >= int64(len(o.list)) {
		return 0, io.EOF
	}
	max := len(ls)
	if o.shortBatch > 0 && max > o.shortBatch {
		max = o.shortBatch
	}
	n := copy(ls[:max], o.list[off:])
	if int(off)+n >= len(o.list) && o.eofMode != "after" {
		return n, io.EOF
	}
	return n, nil
}

func (o *vfHObj) Close() error {
	o.mu.Lock()
	o.closes++
	if o.inflight > 0 {
		o.closeWhileBusy = true
	}
	o.mu.Unlock()
	o.h.event("close obj#%d", o.id)
	return o.h.closeErr
}

func (o *vfHObj) TransferError(err error) {
	o.mu.Lock()
	o.terrs = append(o.terrs, err)
	o.mu.Unlock()
	o.h.event("transfererror obj#%d", o.id)
}

type vfReaderObj struct{ *vfHObj }

func (o vfReaderObj) ReadAt(b []byte, off int64) (int, error) { return o.readAt(b, off) }

type vfWriterObj struct{ *vfHObj }

func (o vfWriterObj) WriteAt(b []byte, off int64) (int, error) { return o.writeAt(b, off) }

type vfRWObj struct{ *vfHObj }

func (o vfRWObj) ReadAt(b []byte, off int64) (int, error)  { return o.readAt(b, off) }
func (o vfRWObj) WriteAt(b []byte, off int64) (int, error) { return o.writeAt(b, off) }

type vfListerObj struct{ *vfHObj }

func (o vfListerObj) ListAt(ls []os.FileInfo, off int64) (int, error) { return o.listAt(ls, off) }

// vfHOpts selects which optional handler interfaces are present.
type vfHOpts struct {
	OpenFile    bool
	PosixRename bool
	StatVFS     bool
	Lstat       bool
	RealPath    int // 0 none, 1 RealPathFileLister, 2 legacy
	Readlink    bool
	NameLookup  bool
}

func (h *vfH) doRealPath(p string) (string, error) {
	h.mu.Lock()
	h.calls = append(h.calls, vfHCall{Handler: "RealPath", Filepath: p})
	h.mu.Unlock()
	if h.realPath != nil {
		return h.realPath(p)
	}
	return "/real" + path.Clean("/"+p), nil
}

func (h *vfH) doReadlink(p string) (string, error) {
	h.mu.Lock()
	h.calls = append(h.calls, vfHCall{Handler: "Readlink", Filepath: p})
	h.mu.Unlock()
	if h.readlink != nil {
		return h.readlink(p)
	}
	f := h.lookup(p)
	if f == nil {
		return "", os.ErrNotExist
	}
	if f.link == "" {
		return "", fmt.Errorf("not a symlink")
	}
	return f.link, nil
}

func (h *vfH) doLookupUser(s string) string {
	if h.lookupUser != nil {
		return h.lookupUser(s)
	}
	return "u" + s
}
func (h *vfH) doLookupGroup(s string) string { return "g" + s }
