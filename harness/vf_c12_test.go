package sftp_test

// C12 — a remote File keeps os.File's offset and closed-state semantics.

import (
	"bytes"
	"errors"
	"fmt"
	"io"
	"math"
	"os"
	"sync/atomic"
	"testing"

	sftp "github.com/pkg/sftp"
	"pgregory.net/rapid"
)

type vfC12Call struct {
	M      string // Read | Write | ReadAt | WriteAt | ReadFrom | WriteTo | Seek | Truncate | Stat | Close
	N      int    `json:",omitempty"` // length
	Off    int64  `json:",omitempty"` // offset / seek offset / size
	Whence int    `json:",omitempty"`
}

type vfCaseC12 struct {
	Opts       vfOpts
	FileLen    int
	Calls      []vfC12Call
	CloseFails bool `json:",omitempty"` // the server answers the CLOSE with a failure status (seed C12-c): the File is closed all the same
}

const vfC12Seed = 77
const vfC12ModelMax = 1 << 24

func vfGenC12(t *rapid.T) vfCaseC12 {
	c := vfCaseC12{Opts: vfGenSmallOpts(t)}
	mp := c.Opts.MaxPacket
	c.FileLen = rapid.SampledFrom([]int{0, 1, mp - 1, mp, mp + 1, 2*mp + 3, 3 * mp, 5*mp + 1}).Draw(t, "filelen")
	c.CloseFails = rapid.IntRange(0, 5).Draw(t, "closefails") == 0
	n := rapid.IntRange(1, 20).Draw(t, "ncalls")
	lens := []int{0, 1, 2, mp - 1, mp, mp + 1, 2 * mp, 2*mp + 1, 3*mp + 2}
	for i := 0; i < n; i++ {
		m := rapid.SampledFrom([]string{"Read", "Read", "Write", "Write", "ReadAt", "WriteAt", "ReadFrom", "WriteTo", "Seek", "Seek", "Seek", "Truncate", "Stat", "Close", "Repath"}).Draw(t, "m")
		if m == "Close" && rapid.IntRange(0, 2).Draw(t, "really") != 0 {
			m = "Seek"
		}
		call := vfC12Call{M: m}
		switch m {
		case "Read", "Write", "ReadFrom":
			call.N = rapid.SampledFrom(lens).Draw(t, "n")
		case "WriteTo":
			// N > 0: the destination accepts N bytes and then fails (seed C12-h) - the offset still has to
			// account for what was delivered
			if rapid.Bool().Draw(t, "sinkfails") {
				call.N = rapid.SampledFrom(lens).Draw(t, "n")
			}
		case "ReadAt", "WriteAt":
			call.N = rapid.SampledFrom(lens).Draw(t, "n")
			call.Off = int64(rapid.SampledFrom([]int{0, 1, mp, mp + 1, c.FileLen, c.FileLen + 3}).Draw(t, "off"))
		case "Seek":
			call.Whence = rapid.SampledFrom([]int{0, 0, 1, 1, 2, 2, 3, -1}).Draw(t, "whence")
			call.Off = rapid.SampledFrom([]int64{0, 1, -1, int64(mp), int64(-mp), int64(mp + 1), int64(c.FileLen), int64(-c.FileLen), int64(-c.FileLen - 1),
				int64(2*c.FileLen + 1), 1 << 20, -(1 << 20), 1 << 40, -(1 << 62), 1<<63 - 1, -1 << 63}).Draw(t, "off")
		case "Truncate":
			call.Off = int64(rapid.SampledFrom([]int{0, 1, mp, c.FileLen, c.FileLen + 5, 2 * mp}).Draw(t, "size"))
		}
		c.Calls = append(c.Calls, call)
	}
	return c
}

// vfLimitSink accepts left bytes and fails from then on (a full disk, a closed pipe).
type vfLimitSink struct {
	bytes.Buffer
	left      int
	unlimited bool
}

var errVfSinkFull = errors.New("vf: destination full")

func (s *vfLimitSink) Write(p []byte) (int, error) {
	if s.unlimited || len(p) <= s.left {
		s.left -= len(p)
		return s.Buffer.Write(p)
	}
	n := s.left
	s.Buffer.Write(p[:n])
	s.left = 0
	return n, errVfSinkFull
}

func vfIsClosedErr(err error) bool { return errors.Is(err, os.ErrClosed) }

func vfRunC12(ctx *vfCtx, c vfCaseC12) {
	baseline := vfPkgGoroutineIDs()
	mp := c.Opts.MaxPacket
	s, err := vfStartSession(c.Opts, func(p *vfPeer, l *vfLink) {
		p.addFile("/t", vfPRFBytes(vfC12Seed, 0, c.FileLen))
		if c.CloseFails {
			p.mutate = func(idx int, req *vfPkt, frame []byte) []byte {
				if req.Type == vfFxpClose {
					return vfEncode(vfStatus(req.ID, vfFxFailure, "close refused"))
				}
				return frame
			}
		}
	})
	if err != nil {
		ctx.Failf("harness/handshake", "%v", err)
	}
	model := vfPRFBytes(vfC12Seed, 0, c.FileLen)
	var off int64
	closed := false
	var handle string

	d, r := vfCall(func() (string, error) {
		f, err := s.c.OpenFile("/t", os.O_RDWR)
		if err != nil {
			return "", err
		}
		// the handle is the one the peer issued for this open
		for _, rq := range s.peer.Requests() {
			if rq.Pkt != nil && rq.Pkt.Type == vfFxpOpen && rq.Reply != nil {
				if rp, _, e := vfDecodeBody(rq.Reply[4:]); e == nil && rp.Type == vfFxpHandle {
					handle = string(rp.Handle)
				}
			}
		}
		step := func(i int, call vfC12Call) {
			desc := fmt.Sprintf("call %d %+v (model offset %d, size %d, maxpacket %d)", i, call, off, len(model), mp)
			key := "C12/" + call.M
			expectClosed := func(err error) {
				if !vfIsClosedErr(err) {
					ctx.Failf("C12/closed/"+call.M, "%s after Close returned %v, want os.ErrClosed", desc, err)
				}
			}
			switch call.M {
			case "Read", "Write", "ReadFrom", "WriteTo":
				// A transfer whose end offset does not fit in an int64 has no os.File
				// counterpart (pread/pwrite fail with EINVAL) and the package documents
				// seeking beyond the end of the file as undefined: not generated.
				if !closed && off > math.MaxInt64-int64(call.N)-int64(8*mp)-64 {
					ctx.Class("skipped-int64-overflow")
					return
				}
			}
			switch call.M {
			case "Read":
				b := make([]byte, call.N)
				n, err := f.Read(b)
				if closed {
					expectClosed(err)
					return
				}
				k := 0
				if off < int64(len(model)) {
					k = len(model) - int(off)
					if k > call.N {
						k = call.N
					}
				}
				if n != k {
					ctx.Failf(key+"/count", "%s returned n=%d err=%v, want n=%d", desc, n, err, k)
				}
				if k > 0 && !bytes.Equal(b[:k], model[off:off+int64(k)]) {
					ctx.Failf(key+"/content", "%s returned bytes that are not at the current offset", desc)
				}
				if call.N > 0 && (err == io.EOF) != (k < call.N) || err != nil && err != io.EOF {
					ctx.Failf(key+"/error", "%s returned n=%d err=%v", desc, n, err)
				}
				off += int64(k)
			case "Write", "ReadFrom":
				data := vfPRFBytes(uint32(900+i), 0, call.N)
				var n int64
				var err error
				if call.M == "Write" {
					var k int
					k, err = f.Write(data)
					n = int64(k)
				} else {
					n, err = f.ReadFrom(bytes.NewReader(data))
				}
				if closed {
					expectClosed(err)
					return
				}
				if n < 0 || n > int64(call.N) {
					// whatever happened, a count is a number of bytes of this call (seed C12-g: a failed
					// concurrent Write returned a negative count and moved the offset backwards)
					ctx.Failf(key+"/count-out-of-range", "%s returned n=%d (err %v) for %d bytes", desc, n, err, call.N)
				}
				if off+int64(call.N) > vfC12ModelMax || off > vfC12ModelMax {
					// beyond what the model peer stores: it fails the first chunk
					if err == nil && call.N > 0 {
						ctx.Failf("harness/model-limit", "%s succeeded beyond the peer's limit", desc)
					}
					if call.M == "Write" {
						off += n
					}
					return
				}
				if err != nil || n != int64(call.N) {
					ctx.Failf(key+"/result", "%s returned n=%d err=%v", desc, n, err)
				}
				if call.N > 0 {
					for int64(len(model)) < off+int64(call.N) {
						model = append(model, 0)
					}
					copy(model[off:], data)
				}
				off += int64(call.N)
			case "ReadAt":
				b := make([]byte, call.N)
				_, err := f.ReadAt(b, call.Off)
				if closed {
					expectClosed(err)
				}
			case "WriteAt":
				data := vfPRFBytes(uint32(900+i), 0, call.N)
				n, err := f.WriteAt(data, call.Off)
				if closed {
					expectClosed(err)
					return
				}
				if err != nil || n != call.N {
					ctx.Failf(key+"/result", "%s returned n=%d err=%v", desc, n, err)
				}
				if call.N > 0 {
					for int64(len(model)) < call.Off+int64(call.N) {
						model = append(model, 0)
					}
					copy(model[call.Off:], data)
				}
			case "WriteTo":
				sink := vfLimitSink{left: call.N, unlimited: call.N == 0}
				n, err := f.WriteTo(&sink)
				if closed {
					expectClosed(err)
					return
				}
				var want []byte
				if off < int64(len(model)) {
					want = model[off:]
				}
				if !sink.unlimited && call.N < len(want) {
					// the destination failed after call.N bytes: the call reports the failure and exactly those
					// bytes, and the offset has moved past everything delivered - by at most the chunk in hand
					ctx.Class("writeto-sink-fails")
					if err == nil || n != int64(call.N) || !bytes.Equal(sink.Bytes(), want[:call.N]) {
						ctx.Failf(key+"/sink-fails/result", "%s into a destination that fails after %d bytes returned n=%d err=%v and delivered %d bytes", desc, call.N, n, err, sink.Len())
					}
					now, serr := f.Seek(0, io.SeekCurrent)
					lo, hi := off+int64(call.N), off+int64(call.N)+int64(mp)
					if hi > int64(len(model)) {
						hi = int64(len(model))
					}
					if serr != nil || now < lo || now > hi {
						ctx.Failf(key+"/sink-fails/offset", "%s into a destination that fails after %d bytes left the offset at %d (err %v), want it in [%d, %d]: start %d plus the bytes delivered, plus at most the chunk in hand", desc, call.N, now, serr, lo, hi, off)
					}
					off = now
					return
				}
				if err != nil || n != int64(len(want)) || !bytes.Equal(sink.Bytes(), want) {
					ctx.Failf(key+"/result", "%s returned n=%d err=%v and %d bytes, want %d bytes from the current offset", desc, n, err, sink.Len(), len(want))
				}
				off += int64(len(want))
			case "Seek":
				got, err := f.Seek(call.Off, call.Whence)
				if closed {
					expectClosed(err)
					return
				}
				var target int64
				valid := true
				switch call.Whence {
				case io.SeekStart:
					target = call.Off
				case io.SeekCurrent:
					target = off + call.Off
				case io.SeekEnd:
					target = int64(len(model)) + call.Off
				default:
					valid = false
				}
				if !valid || target < 0 {
					if err == nil {
						ctx.Failf(key+"/accepted", "%s succeeded (returned %d), want an error", desc, got)
					}
				} else {
					if err != nil || got != target {
						ctx.Failf(key+"/result", "%s returned (%d, %v), want (%d, nil)", desc, got, err, target)
					}
					off = target
				}
			case "Truncate":
				err := f.Truncate(call.Off)
				if closed {
					expectClosed(err)
					return
				}
				if err != nil {
					ctx.Failf(key+"/result", "%s failed: %v", desc, err)
				}
				for int64(len(model)) < call.Off {
					model = append(model, 0)
				}
				model = model[:call.Off]
			case "Repath":
				// Not a File method: on the server the name the File was opened under now denotes another file
				// of another size (renamed away and replaced). An open File, like an os.File, keeps referring to
				// the file it opened - for Stat and for end-relative seeks too (seed F01).
				s.peer.mu.Lock()
				s.peer.fs["/t"] = &vfNode{Kind: "file", Data: make([]byte, len(model)/2+3), Perm: 0o600, Mtime: 1, Atime: 1}
				s.peer.mu.Unlock()
				return
			case "Stat":
				fi, err := f.Stat()
				if closed {
					expectClosed(err)
					return
				}
				if err != nil || fi.Size() != int64(len(model)) {
					ctx.Failf(key+"/result", "%s: size %v err %v, want %d", desc, fi, err, len(model))
				}
			case "Close":
				err := f.Close()
				if closed {
					expectClosed(err)
					return
				}
				if err != nil && !c.CloseFails {
					ctx.Failf(key+"/result", "%s failed: %v", desc, err)
				}
				closed = true
			}
			if !closed {
				cur, err := f.Seek(0, io.SeekCurrent)
				if err != nil || cur != off {
					ctx.Failf("C12/offset-after/"+call.M, "after %s the File offset is %d (err %v), an os.File would be at %d", desc, cur, err, off)
				}
			}
		}
		for i, call := range c.Calls {
			step(i, call)
		}
		// finally: close (if still open) and call every exported method once more
		if !closed {
			if err := f.Close(); err != nil && !c.CloseFails {
				ctx.Failf("C12/Close/result", "final Close failed: %v", err)
			}
			closed = true
		}
		after := map[string]error{}
		_, after["Read"] = f.Read(make([]byte, 3))
		_, after["ReadAt"] = f.ReadAt(make([]byte, 3), 0)
		_, after["ReadAtBig"] = f.ReadAt(make([]byte, 3*mp), 0)
		_, after["Write"] = f.Write([]byte("abc"))
		_, after["WriteAt"] = f.WriteAt([]byte("abc"), 0)
		_, after["WriteBig"] = f.Write(make([]byte, 3*mp))
		_, after["ReadFrom"] = f.ReadFrom(bytes.NewReader([]byte("abc")))
		_, after["ReadFromWithConcurrency"] = f.ReadFromWithConcurrency(bytes.NewReader([]byte("abc")), 2)
		_, after["WriteTo"] = f.WriteTo(io.Discard)
		_, after["Seek"] = f.Seek(0, io.SeekStart)
		_, after["SeekEnd"] = f.Seek(0, io.SeekEnd)
		_, after["Stat"] = f.Stat()
		after["Chmod"] = f.Chmod(0o600)
		after["Chown"] = f.Chown(1, 2)
		after["Truncate"] = f.Truncate(1)
		after["Sync"] = f.Sync()
		after["SetExtendedData"] = f.SetExtendedData("/t", []sftp.StatExtended{{ExtType: "a", ExtData: "b"}})
		after["Close"] = f.Close()
		for m, err := range after {
			if !vfIsClosedErr(err) {
				ctx.Failf("C12/closed/"+m, "%s after Close returned %v, want os.ErrClosed", m, err)
			}
		}
		return "", nil
	})
	if !vfAwait(ctx, d, "history") {
		ctx.Failf("C12/hang", "history never finishes\n%s", vfDumpRelevant())
	}
	if r.Panic != nil {
		if f, ok := r.Panic.(*vfFailure); ok {
			panic(f)
		}
		ctx.Failf("panic/"+vfPanicSite([]byte(r.Stack)), "panicked: %v\n%s", r.Panic, vfTrimStack([]byte(r.Stack)))
	}
	if r.Err != nil {
		ctx.Failf("harness/setup", "%v", r.Err)
	}
	vfC12CheckTap(ctx, s, handle)
	nonStart, cross := false, false
	for _, call := range c.Calls {
		if call.M == "Seek" && call.Whence != 0 {
			nonStart = true
		}
		if call.N > mp {
			cross = true
		}
		ctx.Class("m=" + call.M)
	}
	if nonStart || cross {
		ctx.NonTrivial()
	}
	vfEndSession(ctx, "C12", s, baseline)
}

// vfC12CheckTap: exactly one CLOSE frame carries the handle and no frame after
// it mentions the handle.
func vfC12CheckTap(ctx *vfCtx, s *vfSess, handle string) {
	if handle == "" {
		ctx.Failf("harness/no-handle", "could not learn the handle")
	}
	bodies, _, _ := vfSplitFrames(s.link.C2S.Tap())
	closes := 0
	for i, b := range bodies {
		p, _, err := vfDecodeBody(b)
		if err != nil {
			ctx.Failf("C12/framing", "frame %d does not decode: %v", i, err)
		}
		uses := string(p.Handle) == handle && (p.Type == vfFxpClose || p.Type == vfFxpRead || p.Type == vfFxpWrite || p.Type == vfFxpFstat || p.Type == vfFxpFsetstat || p.Type == vfFxpReaddir || p.Type == vfFxpExtended)
		if closes > 0 && uses {
			ctx.Failf("C12/use-after-close/"+vfTypeName(p.Type), "frame %d (%s) carries handle %q after its CLOSE was sent", i, vfTypeName(p.Type), handle)
		}
		if p.Type == vfFxpClose && string(p.Handle) == handle {
			closes++
		}
	}
	if closes != 1 {
		ctx.Failf("C12/close-count", "%d CLOSE frames carry handle %q, want exactly 1", closes, handle)
	}
}

// ---- racing Close ------------------------------------------------------------------

type vfCaseC12Race struct {
	Opts    vfOpts
	Workers [][]string // per goroutine: ReadAt | ReadAtBig | WriteAt | WriteAtBig | Stat | Truncate
	CloseAt int        // Close is called when the peer has seen this many requests
	Window  int
	Order   []int
}

func vfGenC12Race(t *rapid.T) vfCaseC12Race {
	c := vfCaseC12Race{Opts: vfGenSmallOpts(t)}
	ng := rapid.IntRange(2, 4).Draw(t, "workers")
	for g := 0; g < ng; g++ {
		c.Workers = append(c.Workers, rapid.SliceOfN(rapid.SampledFrom([]string{"ReadAt", "ReadAtBig", "WriteAt", "WriteAtBig", "Stat", "Truncate"}), 1, 12).Draw(t, "prog"))
	}
	c.CloseAt = rapid.IntRange(1, 40).Draw(t, "closeat")
	c.Window = rapid.SampledFrom([]int{1, 2, 4, 8}).Draw(t, "window")
	c.Order = rapid.SliceOfN(rapid.IntRange(0, 7), 1, 8).Draw(t, "order")
	return c
}

func vfRunC12Race(ctx *vfCtx, c vfCaseC12Race) {
	baseline := vfPkgGoroutineIDs()
	mp := c.Opts.MaxPacket
	region := 8*mp + 64 // reads stay in [0,region), writes in [region,2*region)
	vfC12RaceLen := 2 * region
	trigger := make(chan struct{}, 1)
	var seen atomic.Int32
	s, err := vfStartSession(c.Opts, func(p *vfPeer, l *vfLink) {
		p.addFile("/t", vfPRFBytes(vfC12Seed, 0, vfC12RaceLen))
		p.window = c.Window
		p.order = c.Order
		p.onRequest = func(idx int, req *vfPkt) {
			if int(seen.Add(1)) == c.CloseAt+2 { // INIT and OPEN come first
				select {
				case trigger <- struct{}{}:
				default:
				}
			}
		}
	})
	if err != nil {
		ctx.Failf("harness/handshake", "%v", err)
	}
	f, err := s.c.OpenFile("/t", os.O_RDWR)
	if err != nil {
		ctx.Failf("harness/open", "%v", err)
	}
	handle := ""
	for _, rq := range s.peer.Requests() {
		if rq.Pkt != nil && rq.Pkt.Type == vfFxpOpen && rq.Reply != nil {
			if rp, _, e := vfDecodeBody(rq.Reply[4:]); e == nil && rp.Type == vfFxpHandle {
				handle = string(rp.Handle)
			}
		}
	}
	type bad struct{ key, msg string }
	bads := make(chan bad, 64)
	var dones []<-chan struct{}
	overlapped := false
	for g, prog := range c.Workers {
		g, prog := g, prog
		d, _ := vfCall(func() (string, error) {
			for k, m := range prog {
				var err error
				switch m {
				case "ReadAt", "ReadAtBig":
					n := 7
					if m == "ReadAtBig" {
						n = 3*mp + 1
					}
					off := (g*131 + k*17) % (region - n - 1)
					b := make([]byte, n)
					var got int
					got, err = f.ReadAt(b, int64(off))
					if err == nil && (got != n || !bytes.Equal(b, vfPRFBytes(vfC12Seed, off, n))) {
						bads <- bad{"C12/race/wrong-read", fmt.Sprintf("worker %d %s at %d returned wrong bytes with nil error", g, m, off)}
					}
				case "WriteAt", "WriteAtBig":
					n := 5
					if m == "WriteAtBig" {
						n = 2*mp + 3
					}
					off := region + (g*311+k*13)%(region-n-1)
					_, err = f.WriteAt(vfPRFBytes(uint32(g), off, n), int64(off))
				case "Stat":
					var fi os.FileInfo
					fi, err = f.Stat()
					if err == nil && fi.Size() != int64(vfC12RaceLen) {
						bads <- bad{"C12/race/wrong-stat", fmt.Sprintf("worker %d Stat size %d", g, fi.Size())}
					}
				case "Truncate":
					err = f.Truncate(int64(vfC12RaceLen))
				}
				if err != nil {
					if !vfIsClosedErr(err) {
						bads <- bad{"C12/race/error/" + m, fmt.Sprintf("worker %d %s returned %v: neither a correct result nor os.ErrClosed", g, m, err)}
					}
					return "", nil
				}
			}
			return "", nil
		})
		dones = append(dones, d)
	}
	closer, cres := vfCall(func() (string, error) {
		<-trigger
		return "", f.Close()
	})
	for g, d := range dones {
		if !vfAwait(ctx, d, fmt.Sprintf("worker %d", g)) {
			// workers done without reaching CloseAt: release the closer
			ctx.Failf("C12/race/hang", "worker %d never returns\n%s", g, vfDumpRelevant())
		}
	}
	select {
	case trigger <- struct{}{}:
	default:
	}
	if !vfAwait(ctx, closer, "Close") {
		ctx.Failf("C12/race/close-hangs", "Close never returns\n%s", vfDumpRelevant())
	}
	if cres.Err != nil && !vfIsClosedErr(cres.Err) {
		ctx.Failf("C12/race/close-error", "Close returned %v", cres.Err)
	}
	select {
	case b := <-bads:
		ctx.Failf(b.key, "%s", b.msg)
	default:
	}
	if int(seen.Load()) > c.CloseAt+2 {
		overlapped = true
	}
	vfC12CheckTap(ctx, s, handle)
	if overlapped {
		ctx.Class("close-overlapped")
		ctx.NonTrivial()
	}
	vfEndSession(ctx, "C12", s, baseline)
}

func TestVerifC12(t *testing.T) {
	t.Run("seq", func(t *testing.T) { vfDriveSub(t, "seq", vfProp[vfCaseC12]{ID: "C12", Gen: vfGenC12, Run: vfRunC12}) })
	t.Run("race", func(t *testing.T) {
		vfDriveSub(t, "race", vfProp[vfCaseC12Race]{ID: "C12", Gen: vfGenC12Race, Run: vfRunC12Race})
	})
}
