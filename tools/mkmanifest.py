#!/usr/bin/env python3
"""Regenerate MANIFEST.json from checks.json (single source of truth)."""
import json, os, subprocess
ROOT = os.path.dirname(os.path.dirname(os.path.abspath(__file__)))
cfg = json.load(open(os.path.join(ROOT, "checks.json")))
props = [json.loads(l)["id"] for l in open(os.path.join(ROOT, "properties.jsonl")) if l.strip()]
na_reasons = json.load(open(os.path.join(ROOT, "not_applicable.json"))) if os.path.exists(os.path.join(ROOT, "not_applicable.json")) else {}
hooks_commits = []
try:
    out = subprocess.run(["git", "-C", "/repo", "log", "--format=%H %s"], capture_output=True, text=True).stdout
    hooks_commits = [l.split()[0] for l in out.splitlines() if " verif-hook:" in l]
except Exception:
    pass
checks = []
for pid in props:
    if pid not in cfg:
        continue
    c = cfg[pid]
    checks.append({
        "property_id": pid,
        "quick_cmd": "./check %s --tier quick" % pid,
        "thorough_cmd": "./check %s --tier thorough" % pid,
        "evidence_file": "/verif/evidence/%s.json" % pid,
        "replay_cmd_template": "./check %s --replay {path}" % pid,
        "engine": "vf-harness",
        "level_claimed": {"category": c["level"], "text": c["level_text"], "design_ref": c.get("design_ref", "DESIGN.md section 4, " + pid)},
        "level_note": c["level_note"],
        "technique": c["technique"],
    })
na = [{"property_id": p, "reason": na_reasons.get(p, "check not built yet in this session (planned, see DESIGN.md section 4)")} for p in props if p not in cfg]
m = {
    "version": 1,
    "setup_cmd": "./check setup",
    "hooks": {
        "guard": "verif",
        "enable": "go test -c -tags verif (the driver ./check always builds /repo's working tree with -tags verif and the harness overlaid)",
        "baseline_off_cmd": "cd /repo && go test -vet=off -count=1 -timeout 25m ./...",
        "source_commits": hooks_commits,
        "add_only": True,
    },
    "engines": [{"name": "vf-harness", "path": "/verif/check", "serves_properties": [c["property_id"] for c in checks],
                 "kind_free_text": "python driver + Go property harness (pgregory.net/rapid v1.3.0 generators, exhaustive enumerations, native go fuzzing in the thorough tier) overlaid onto /repo's package at build time; sharded over processes with a crash journal"}],
    "checks": checks,
    "not_applicable": na,
    "notes": "See DESIGN.md. Exit 0 = held, 1 = VIOLATION line, 2 = inconclusive (build failure/timeout), never reported as a violation.",
}
json.dump(m, open(os.path.join(ROOT, "MANIFEST.json"), "w"), indent=1)
print("claimed:", [c["property_id"] for c in checks], "not_applicable:", [x["property_id"] for x in na])
