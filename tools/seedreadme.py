#!/usr/bin/env python3
"""Regenerate seeded/README.md from seeded/*/meta.json."""
import glob, json, os
ROOT = os.path.dirname(os.path.dirname(os.path.abspath(__file__)))
rows = []
for m in sorted(glob.glob(os.path.join(ROOT, "seeded", "*", "meta.json"))):
    d = json.load(open(m))
    res = d.get("check_results", {})
    caught = ", ".join("%s (%s)" % (c, "; ".join(k.replace("key=", "") for k in r.get("keys", [])[:2])) for c, r in res.items() if r.get("exit") == 1) or "-"
    missed = ", ".join(c for c, r in res.items() if r.get("exit") != 1) or "-"
    rows.append("| %s | %s | %s | %s | %s | %s |" % (d.get("seed"), d.get("property"), (d.get("summary") or "").replace("|", "/")[:300], (d.get("needs") or "").replace("|", "/")[:260], caught, missed))
out = ["# Independently written breaking changes", "",
       "Each directory holds `patch.diff` (applies to /repo with `git apply`), `demo_test.go` (the author's own demonstration: fails with the change, passes without) and `meta.json`.",
       "They were written by sub-agents that saw only the text of one property and a scratch worktree - nothing from /verif. `tools/seedcheck.py` validated each one in a fresh worktree (applies, builds, pinned suite passes, demo fails with / passes without) and then ran the listed checks with the patch applied to /repo (undone straight afterwards).",
       "", "| seed | property | change | needs | caught by (first keys) | run but silent |", "|---|---|---|---|---|---|"] + rows
open(os.path.join(ROOT, "seeded", "README.md"), "w").write("\n".join(out) + "\n")
print("\n".join(rows))
