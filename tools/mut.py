#!/usr/bin/env python3
"""Development aid: run checks against a scratch copy of /repo with one textual mutation.
usage: mut.py ID[,ID...] file 'old' 'new' [--tier quick]   (old must occur exactly once unless --all)"""
import os, shutil, subprocess, sys, tempfile
ids, f, old, new = sys.argv[1].split(","), sys.argv[2], sys.argv[3], sys.argv[4]
allocc = "--all" in sys.argv
d = tempfile.mkdtemp(prefix="vfmut-")
try:
    subprocess.run(["rsync", "-a", "--exclude", ".git", "/repo/", d + "/"], check=True)
    p = os.path.join(d, f)
    s = open(p).read()
    n = s.count(old)
    if n == 0 or (n != 1 and not allocc):
        print("MUT: pattern occurs %d times" % n); sys.exit(3)
    open(p, "w").write(s.replace(old, new))
    r = subprocess.run(["go", "build", "./..."], cwd=d, capture_output=True, text=True)
    if r.returncode != 0:
        print("MUT: does not compile\n" + r.stderr[-1500:]); sys.exit(3)
    if "--suite" in sys.argv:
        r = subprocess.run(["go", "test", "-vet=off", "-count=1", "."], cwd=d, capture_output=True, text=True)
        print("MUT: suite", "passes" if r.returncode == 0 else "FAILS")
    for i in ids:
        env = dict(os.environ, VERIF_REPO=d)
        r = subprocess.run([os.path.join(os.path.dirname(os.path.abspath(__file__)), "..", "check"), i], env=env, capture_output=True, text=True)
        lines = [l for l in r.stdout.splitlines() if l.startswith(("VIOLATION", "OK", "INCONCLUSIVE", "KNOWN", "  key="))]
        print("MUT %s rc=%d: %s" % (i, r.returncode, " | ".join(lines[:6])))
finally:
    shutil.rmtree(d, ignore_errors=True)
