#!/usr/bin/env python3
"""Validate an independently written breaking change and run the checks against it.

usage: seedcheck.py <out-dir> <seed-name> <PROPERTY> [other check ids...]

<out-dir> holds patch.diff, demo_test.go, meta.json (written by a sub-agent).
1. In a fresh scratch worktree of /repo: the patch applies, builds, the existing suite passes with it,
   the demonstration fails with it and passes without it.
2. Apply the patch to /repo (git apply), run ./check for the property (and any extra ids), undo it
   (git checkout -- .). /repo is left clean.
3. Store patch, demo and an extended meta.json under /verif/seeded/<seed-name>/.
"""
import json, os, shutil, subprocess, sys, tempfile

ROOT = os.path.dirname(os.path.dirname(os.path.abspath(__file__)))
out, name, prop = sys.argv[1], sys.argv[2], sys.argv[3]
extra = sys.argv[4:]


def sh(cmd, cwd=None, timeout=1800):
    r = subprocess.run(cmd, cwd=cwd, shell=isinstance(cmd, str), capture_output=True, text=True, timeout=timeout)
    return r.returncode, (r.stdout + r.stderr)


patch = os.path.join(out, "patch.diff")
demo = os.path.join(out, "demo_test.go")
meta = json.load(open(os.path.join(out, "meta.json"))) if os.path.exists(os.path.join(out, "meta.json")) else {}
ran = []
wt = tempfile.mkdtemp(prefix="vfseed-")
os.rmdir(wt)
ok = True
try:
    rc, o = sh(["git", "-C", "/repo", "worktree", "add", "-q", wt, "HEAD"])
    assert rc == 0, o
    # demo passes on the unchanged tree
    shutil.copy(demo, os.path.join(wt, "zz_seed_demo_test.go"))
    rc0, o0 = sh("go test -vet=off -count=1 -run '^TestSeedDemo$' .", cwd=wt)
    ran.append("demo on unchanged tree: rc=%d" % rc0)
    os.remove(os.path.join(wt, "zz_seed_demo_test.go"))
    rc, o = sh(["git", "-C", wt, "apply", patch])
    ran.append("git apply: rc=%d %s" % (rc, o.strip()[:200]))
    if rc != 0:
        ok = False
    rcb, ob = sh("go build ./...", cwd=wt)
    ran.append("go build: rc=%d" % rcb)
    for attempt in range(6):  # TestRequestStatVFS compares free disk blocks twice: flaky while the disk is busy;
        # the pinned suite listens on the fixed path /tmp/rstest.sock, so two suite runs must not overlap
        rcs, os_ = sh("flock /tmp/vf-pinned-suite.lock go test -vet=off -count=1 ./...", cwd=wt)
        ran.append("existing suite with the change (attempt %d): rc=%d" % (attempt + 1, rcs))
        if rcs == 0 or ("TestRequestStatVFS" not in os_ and "rstest.sock" not in os_):
            break
    shutil.copy(demo, os.path.join(wt, "zz_seed_demo_test.go"))
    rc1, o1 = sh("go test -vet=off -count=1 -run '^TestSeedDemo$' .", cwd=wt)
    ran.append("demo with the change: rc=%d" % rc1)
    valid = ok and rc0 == 0 and rcb == 0 and rcs == 0 and rc1 != 0
    print("SEED %s: demo unchanged rc=%d, build rc=%d, suite rc=%d, demo changed rc=%d -> %s" % (name, rc0, rcb, rcs, rc1, "VALID" if valid else "INVALID"))
    if not valid:
        print((o0 if rc0 else "")[-1500:], (ob if rcb else "")[-1500:], (os_ if rcs else "")[-1500:])
finally:
    sh(["git", "-C", "/repo", "worktree", "remove", "--force", wt])
    shutil.rmtree(wt, ignore_errors=True)

results = {}
AREPO = os.environ.get("VERIF_REPO", "/repo")  # a scratch copy of /repo lets several seeds be checked side by side
if valid:
    st = subprocess.run(["git", "-C", AREPO, "status", "--porcelain"], capture_output=True, text=True).stdout.strip()
    assert st == "", "/repo is not clean: " + st
    rc, o = sh(["git", "-C", AREPO, "apply", patch])
    assert rc == 0, o
    try:
        for cid in [prop] + extra:
            rc, o = sh([os.path.join(ROOT, "check"), cid], timeout=3600)
            keys = [l.strip() for l in o.splitlines() if l.startswith("  key=")]
            head = [l for l in o.splitlines() if l.startswith(("VIOLATION", "OK", "INCONCLUSIVE"))][:3]
            results[cid] = {"exit": rc, "keys": keys[:6], "lines": head}
            # keep the first reproduction as a regression replay (it must pass on the clean tree)
            if rc == 1 and cid == prop:
                import re
                m = re.search(r"^VIOLATION property=\S+ replay=(\S+)", o, re.M)
                if m and os.path.exists(m.group(1)) and "/replays/" not in m.group(1):
                    rd = os.path.join(ROOT, "replays", cid)
                    os.makedirs(rd, exist_ok=True)
                    rf = json.load(open(m.group(1)))
                    rf["msg"] = (rf.get("msg") or "")[:400]
                    rf["origin"] = "found with seeded change %s applied" % name
                    json.dump(rf, open(os.path.join(rd, "%s.json" % name), "w"), indent=1)
                    results[cid]["replay_saved"] = "replays/%s/%s.json" % (cid, name)
            print("CHECK %s on seed %s: exit %d %s" % (cid, name, rc, keys[:4]))
    finally:
        sh(["git", "-C", AREPO, "checkout", "--", "."])
        st = subprocess.run(["git", "-C", AREPO, "status", "--porcelain"], capture_output=True, text=True).stdout.strip()
        print("repo restored:", "clean" if st == "" else st)

d = os.path.join(ROOT, "seeded", name)
os.makedirs(d, exist_ok=True)
shutil.copy(patch, os.path.join(d, "patch.diff"))
shutil.copy(demo, os.path.join(d, "demo_test.go"))
meta.update({"property": prop, "seed": name, "validated": valid, "validation_commands": ran, "check_results": results,
             "caught_by": [c for c, r in results.items() if r["exit"] == 1]})
json.dump(meta, open(os.path.join(d, "meta.json"), "w"), indent=1)
